import sys; sys.path.insert(0, "/tmp/scratch/repo")
import numpy as np, warnings, itertools
warnings.filterwarnings('ignore')
from basic_robotics.general import tm, fsr
from basic_robotics.modern_robotics_numba import mr
import modern_robotics as ref
np.set_printoptions(precision=6, suppress=True, linewidth=200)
pi=np.pi
worst={}
def upd(k,v,info=None):
    if not np.isfinite(v): v=np.inf
    if k not in worst or v>worst[k][0]: worst[k]=(v,info)
P=[tm(), tm([1,2,3,0,0,0]), tm([0,0,0,0.3,-0.2,0.5]), tm([-2,5,1,1,2,-1.5]), tm([3,-1,2,0,0,pi-1e-3]), tm([10,-10,10,0.7,0.7,0]), tm([0,0,5,0,0,0]),tm([1,2,-4,0.1,0,0])]
for a,b in itertools.product(P,repeat=2):
    if np.allclose(a[0:3],b[0:3]): continue
    L=fsr.lookAt(a.copy(),b.copy()); R=L.gTM()[:3,:3]
    upd('lookAt pos', np.abs(L.gTM()[:3,3]-a.gTM()[:3,3]).max()); upd('lookAt proper', max(np.abs(R@R.T-np.eye(3)).max(), abs(np.linalg.det(R)-1)))
    d=(b[0:3]-a[0:3]).flatten(); d/=np.linalg.norm(d); upd('lookAt z', np.abs(R[:,2]-d).max(),(a.gTAA().T,b.gTAA().T))
    upd('dist sym', abs(fsr.distance(a,b)-fsr.distance(b,a)))
    g=fsr.closeLinearGap(a,b,0.25); upd('linGap step', abs(mr.Norm6((g-a)[0:6])-0.25)); 
    n0=mr.Norm6((b-a)[0:6]); upd('linGap toward', abs(mr.Norm6((b-g)[0:6])-(n0-0.25)) if n0>0.25 else 0)
    g=fsr.closeArcGap(a,b,0.25); upd('arcGap step', abs(fsr.arcDistance(a,g)-0.25),(a.gTAA().T,b.gTAA().T))
    tw=fsr.twistToGoal(a,b); E=fsr.transformFromTwist(tw); upd('twistToGoal space', np.abs((E@a).gTM()-b.gTM()).max()/max(1,np.abs(b.gTM()).max()),(a.gTAA().T,b.gTAA().T)); upd('twistToGoal body', np.abs((a@E).gTM()-b.gTM()).max())
    for n in (2,3,7,200):
        pth=fsr.IKPath(a,b,n); upd('IKPath len', abs(len(pth)-n)); upd('IKPath ends', max(np.abs(pth[0].gTAA()-a.gTAA()).max(), np.abs(pth[-1].gTAA()-b.gTAA()).max()))
        dd=[(pth[i+1].gTAA()-pth[i].gTAA()) for i in range(n-1)]; upd('IKPath even', max(np.abs(x-dd[0]).max() for x in dd))
    upd('arcDist def', abs(fsr.arcDistance(a,b)-np.linalg.norm(fsr.globalToLocal(a,b).gTAA())))
for a,b,c in itertools.product(P,repeat=3):
    upd('triangle', max(0, fsr.distance(a,c)-fsr.distance(a,b)-fsr.distance(b,c)))
    pa,pb,pc=[x[0:3].flatten() for x in (a,b,c)]
    if np.linalg.norm(np.cross(pb-pa,pc-pa))>1e-6:
        A,B,C,D=fsr.planeFromThreePoints(a,b,c); n=np.array([A,B,C]); 
        for q in (pa,pb,pc): upd('plane contains', abs(n@q-D)/np.linalg.norm(n))
for n in list(range(1,60))+[100,999,2000]:
    upd('fibo unit', np.abs(np.linalg.norm(fsr.fiboSphere(n),axis=1)-1).max()); upd('unitSphere unit', np.abs(np.linalg.norm(fsr.unitSphere(n),axis=1)-1).max(), n)
    upd('fibo count', abs(len(fsr.fiboSphere(n))-n))
for x in np.arange(-50,50.01,0.37):
    r=fsr.angleMod(float(x)); upd('angleMod scalar', abs(np.sin(r)-np.sin(x))+abs(np.cos(r)-np.cos(x)))
    r=fsr.angleMod(np.array([x,2*x,-x])); upd('angleMod arr', np.abs(np.sin(r)-np.sin([x,2*x,-x])).max())
    r=mr.AngleMod(np.array([x,2*x,-x])); upd('mr.AngleMod', np.abs(np.sin(r)-np.sin([x,2*x,-x])).max()+np.abs(np.cos(r)-np.cos([x,2*x,-x])).max())
    v=np.array([1,2,3,x,-x,x/2]); r=fsr.angleMod(v.copy()); upd('angleMod 6vec', np.abs(np.sin(r[3:])-np.sin(v[3:])).max()+np.abs(r[:3]-v[:3]).max())
S=np.array([[0,0,1,0,0,0],[0,1,0,-0.5,0,0],[1,0,0,0,0.3,-0.2],[0,0,0,1,0,0]],float).T; th=np.array([0.3,-0.7,1.1,0.4])
upd('chainJacobian', np.abs(fsr.chainJacobian(S,th)-ref.JacobianSpace(S,th)).max())
f=lambda x: np.array([x[0]**2+x[1], np.sin(x[1])*x[2], x[0]*x[2]]); x0=np.array([0.3,-0.5,0.9]); J=np.array([[2*x0[0],1,0],[0,np.cos(x0[1])*x0[2],np.sin(x0[1])],[x0[2],0,x0[0]]])
upd('numJac', np.abs(fsr.numericalJacobian(f,x0,1e-4)-J).max())
for k,v in worst.items(): print(k, v[0], v[1] if v[0]>1e-6 and v[1] is not None else '')
