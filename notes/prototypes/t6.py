import sys; sys.path.insert(0, "/tmp/scratch/repo")
import numpy as np, warnings, traceback
warnings.filterwarnings('ignore')
from basic_robotics.kinematics import loadArmFromURDF
def mk(joint_xml):
    s = '<robot name="r"><link name="l0"/><link name="l1"/><link name="l2"/>' + joint_xml + '</robot>'
    open('/tmp/scratch/g.urdf','w').write(s); 
    try:
        a = loadArmFromURDF('/tmp/scratch/g.urdf'); print('OK dof', a.num_dof, a.joint_mins, a.joint_maxs); print(np.round(a.FK(np.array([0.3,0.4])).gTM(),4))
    except Exception as e: print('EXC', type(e).__name__, e)
full = lambda o1,a1: f'<joint name="j1" type="revolute"><parent link="l0"/><child link="l1"/>{o1}{a1}<limit lower="-1" upper="1" effort="1" velocity="1"/></joint><joint name="j2" type="revolute"><parent link="l1"/><child link="l2"/><origin xyz="0 0 1" rpy="0 0 0"/><axis xyz="0 1 0"/><limit lower="-1" upper="1" effort="1" velocity="1"/></joint>'
print('full'); mk(full('<origin xyz="1 0 0" rpy="0 0 0"/>','<axis xyz="0 0 1"/>'))
print('no origin'); mk(full('','<axis xyz="0 0 1"/>'))
print('no rpy'); mk(full('<origin xyz="1 0 0"/>','<axis xyz="0 0 1"/>'))
print('no xyz'); mk(full('<origin rpy="0 0 0.5"/>','<axis xyz="0 0 1"/>'))
print('no axis'); mk(full('<origin xyz="1 0 0" rpy="0 0 0"/>',''))
