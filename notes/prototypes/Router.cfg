CONSTANTS
  E = {"a", "b"}
  K = {"k1", "k2"}
  S = {"s1"}
  NoData = "nodata"
INIT Init
NEXT Next
INVARIANT NoDataDeliversNothing
