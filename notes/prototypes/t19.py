import sys; sys.path.insert(0, "/tmp/scratch/repo")
import numpy as np, warnings, itertools
warnings.filterwarnings('ignore')
from basic_robotics.general import tm, fsr, Screw, Wrench
import modern_robotics as ref
np.set_printoptions(precision=6, suppress=True, linewidth=200)
pi=np.pi
frames=[tm(), tm([1,2,3,0,0,0]), tm([0,0,0,0.3,-0.2,0.5]), tm([-2,5,1,1,2,-1.5]), tm([3,-1,2,0,0,pi-1e-3]), tm([10,-10,10, 0.7,0.7,0])]
vecs=[np.eye(6)[i] for i in range(6)]+[np.array([1.,-2,3,4,-5,6])]
worst={}
def upd(k,v,info=None):
    if k not in worst or v>worst[k][0]: worst[k]=(v,info)
def Ad(T): return ref.Adjoint(T)
for cls in (Screw, Wrench):
  for A,B,C in itertools.product(frames,repeat=3):
    for v in vecs:
        mk=(lambda fr: Screw(v.copy().reshape(6,1), fr.copy())) if cls is Screw else (lambda fr: Wrench(v.copy().reshape(6,1), None, fr.copy()))
        s=mk(A); d0=s.getData().copy()
        sB=s.copy().changeFrame(B); 
        Tba=np.linalg.inv(B.gTM())@A.gTM(); Tab=np.linalg.inv(A.gTM())@B.gTM()
        exp = Ad(Tba)@d0 if cls is Screw else Ad(Tab).T@d0
        sc=max(1,np.abs(exp).max())
        upd(cls.__name__+' formula', np.abs(sB.getData()-exp).max()/sc,(A,B))
        upd(cls.__name__+' frame recorded', np.abs(sB.frame_applied.gTM()-B.gTM()).max())
        sBA=sB.copy().changeFrame(A); upd(cls.__name__+' roundtrip', np.abs(sBA.getData()-d0).max()/sc)
        sBC=sB.copy().changeFrame(C); sC=s.copy().changeFrame(C); upd(cls.__name__+' functorial', np.abs(sBC.getData()-sC.getData()).max()/max(1,np.abs(sC.getData()).max()),(A,B,C))
# pairing invariance
for A,B in itertools.product(frames,repeat=2):
    for v in vecs:
        for u in vecs:
            w=Wrench(v.copy().reshape(6,1),None,A.copy()); t=Screw(u.copy().reshape(6,1),A.copy())
            p0=(w.getData().T@t.getData()).item(); w2=w.copy().changeFrame(B); t2=t.copy().changeFrame(B)
            p1=(w2.getData().T@t2.getData()).item(); upd('pairing', abs(p0-p1)/max(1,abs(p0)))
for k,v in worst.items(): print(k, v[0])
# force at point
p=tm([1,2,3,0,0,0]); f=np.array([4.,-5,6]); w=Wrench(f,p); print('moment', w.getMoment().T, np.cross([1,2,3],f))
w2=w.copy().changeFrame(p); print('about own point', w2.getMoment().T)
wA=Wrench(f,p,frames[3].copy()); print('frame given', wA.getData().T); wp=wA.copy().changeFrame(frames[3]@p); print('about own point (framed)', wp.getMoment().T, wp.getForce().T)
# sums in different frames
a=Wrench(np.array([1.,2,3,4,5,6]),None,frames[1].copy()); b=Wrench(np.array([-1.,0,2,1,1,0]),None,frames[3].copy())
s=a+b; e=a.getData()+b.copy().changeFrame(frames[1]).getData(); print('sum', np.abs(s.getData()-e).max(), type(s).__name__, np.abs(s.frame_applied.gTM()-frames[1].gTM()).max())
d=a-b; e=a.getData()-b.copy().changeFrame(frames[1]).getData(); print('diff', np.abs(d.getData()-e).max())
print('a unchanged', a.getData().T, 'b unchanged', b.getData().T, b.frame_applied.gTAA().T)
# scalar laws
for k in (2.0, -0.5, 3, np.float64(1.5), np.int64(2)):
    r=(k*a)/k; print('k',k,type(r).__name__, np.abs(np.asarray(r.getData() if hasattr(r,'getData') else r)-a.getData()).max())
arr=np.array([1.,1,1,2,2,2]); r=(a+arr)-arr; print('(a+b)-b arr', type(r).__name__, np.abs(r.getData()-a.getData()).max())
arr2=arr.reshape(6,1); r=(a+arr2)-arr2; print('(a+b)-b col', type(r).__name__, np.abs(r.getData()-a.getData()).max())
r=(arr+a); print('radd arr', type(r).__name__)
try: r=(arr-a); print('rsub arr', type(r).__name__, (np.asarray(r.getData() if hasattr(r,'getData') else r)).T)
except Exception as e: print('rsub arr EXC', e)
