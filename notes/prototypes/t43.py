import sys; sys.path.insert(0, "/tmp/scratch/repo")
import numpy as np, warnings, inspect, traceback, copy, collections
warnings.filterwarnings('ignore')
import matplotlib; matplotlib.use('agg')
from basic_robotics.modern_robotics_numba import mr as port
import modern_robotics as ref
def rot(w): return ref.MatrixExp3(ref.VecToso3(np.asarray(w,float)))
def se3(w,p): return ref.RpToTrans(rot(w), np.asarray(p,float))
worst=collections.defaultdict(float); exc=collections.Counter(); shape=collections.Counter()
def flat(x):
    if isinstance(x,(tuple,list)): return np.concatenate([flat(y) for y in x]) if len(x) else np.zeros(0)
    return np.asarray(x,float).ravel()
def cmp(name,*args):
    try: r=getattr(ref,name)(*copy.deepcopy(args))
    except Exception as e: exc[(name,'ref',type(e).__name__)]+=1; return
    try: q=getattr(port,name)(*copy.deepcopy(args))
    except Exception as e: exc[(name,'PORT',type(e).__name__,str(e)[:50])]+=1; return
    a,b=flat(r),flat(q)
    if a.shape!=b.shape: shape[name]+=1; return
    if a.size: 
        d=np.abs(a-b); sc=np.maximum(1,np.abs(a)); m=(d/sc).max()
        if not np.isfinite(m): m=0 if np.array_equal(np.isnan(a),np.isnan(b)) else np.inf
        worst[name]=max(worst[name],m)
pi=np.pi
AX=[[1,0,0],[0,1,0],[0,0,1],[0,0,-1],[0.6,0,0.8],[1/3**.5]*3,[0.267,-0.534,0.802]]
ANG=[0,5e-7,2e-6,0.3,pi/2,2.5,pi-1e-3,pi,4.0,pi-1e-7]
for ax in AX:
    for t in ANG:
        w=np.array(ax)*t; so=ref.VecToso3(w); R=rot(w)
        for nm,args in (('VecToso3',(w,)),('so3ToVec',(so,)),('AxisAng3',(w,)) if t>0 else ('NearZero',(t,)),('MatrixExp3',(so,)),('MatrixLog3',(R,)),('RotInv',(R,)),('TestIfSO3',(R,)),('DistanceToSO3',(R+1e-4,)),('ProjectToSO3',(R+1e-4,)),('NearZero',(t,)),('Normalize',(w+1.0,))):
            cmp(nm,*args)
        for p in ([0,0,0],[1,2,3],[1e3,-1e3,5e2]):
            V=np.r_[w,p]; se=ref.VecTose3(V); T=se3(w,p)
            for nm,args in (('VecTose3',(V,)),('se3ToVec',(se,)),('MatrixExp6',(se,)),('MatrixLog6',(T,)),('TransInv',(T,)),('Adjoint',(T,)),('TransToRp',(T,)),('RpToTrans',(R,np.array(p,float))),('ad',(V,)),('TestIfSE3',(T,)),('DistanceToSE3',(T+1e-4,)),('ProjectToSE3',(T+1e-4,)),('ScrewToAxis',(np.array(p,float),np.array(ax,float),0.3))):
                cmp(nm,*args)
            if np.linalg.norm(V)>0: cmp('AxisAng6',V)
rng=np.random.default_rng(3)
J=[np.r_[a,np.cross(q,a)] for a,q in (([1,0,0],[0,0,0]),([0,1,0],[0.3,0,0.2]),([0,0,1],[0,0.4,0]),([0.6,0,0.8],[0.1,0.2,0.3]))]+[np.r_[0,0,0,1,0,0.],np.r_[0,0,0,0.6,0,0.8]]
import itertools
for n in (1,2,3,4,7):
    combos=list(itertools.product(range(len(J)),repeat=n)) if n<=2 else [tuple(rng.integers(0,len(J),n)) for _ in range(12)]
    for c in combos:
        S=np.array([J[i] for i in c]).T.copy(); M=se3([0.2,-0.1,0.3],[0.5,0.2,1.0]); B=np.array([ref.Adjoint(ref.TransInv(M))@S[:,i] for i in range(n)]).T.copy()
        for th in (np.zeros(n), np.full(n,1e-7), rng.uniform(-2,2,n)):
            cmp('FKinSpace',M,S,th); cmp('FKinBody',M,B,th); cmp('JacobianSpace',S,th); cmp('JacobianBody',B,th)
        th=rng.uniform(-1,1,n); Tg=ref.FKinSpace(M,S,th)
        for off in (0,0.02,0.3):
            for (eo,ev) in ((1e-2,1e-3),(1e-6,1e-3),(1e-3,1e-6)):
                cmp('IKinSpace',S,M,Tg,th+off,eo,ev); cmp('IKinBody',B,M,Tg,th+off,eo,ev)
        if all(np.linalg.norm(J[i][:3])>0 for i in c) or True:
            Ml=np.array([se3(rng.normal(size=3)*0.3, rng.normal(size=3)*0.3) for _ in range(n+1)]); Gl=[]
            for i in range(n):
                A=rng.normal(size=(3,3)); I=A@A.T+np.eye(3)*0.1; m_=rng.uniform(0.1,50); G=np.zeros((6,6)); G[:3,:3]=I; G[3:,3:]=m_*np.eye(3); Gl.append(G)
            Gl=np.array(Gl); dth=rng.normal(size=n); ddth=rng.normal(size=n); g=np.array([0.5,-1,-9.8]); F=rng.normal(size=6); tau=rng.normal(size=n)
            cmp('InverseDynamics',th,dth,ddth,g,F,Ml,Gl,S); cmp('MassMatrix',th,Ml,Gl,S); cmp('VelQuadraticForces',th,dth,Ml,Gl,S); cmp('GravityForces',th,g,Ml,Gl,S); cmp('EndEffectorForces',th,F,Ml,Gl,S)
            cmp('ForwardDynamics',th,dth,tau,g,F,Ml,Gl,S); cmp('ComputedTorque',th,dth,rng.normal(size=n),g,Ml,Gl,S,th+0.1,dth,ddth,1.3,1.2,1.1); cmp('EulerStep',th,dth,ddth,0.1)
            for N in (2,5):
                thm=rng.normal(size=(N,n)); dthm=rng.normal(size=(N,n)); ddthm=rng.normal(size=(N,n)); Fm=rng.normal(size=(N,6)); taum=rng.normal(size=(N,n))
                cmp('InverseDynamicsTrajectory',thm,dthm,ddthm,g,Fm,Ml,Gl,S); cmp('ForwardDynamicsTrajectory',th,dth,taum,g,Fm,Ml,Gl,S,0.01,2)
                cmp('SimulateControl',th,dth,g,Fm,Ml,Gl,S,thm,dthm,ddthm,g,Ml,Gl,20.,10.,18.,0.01,2)
                for meth in (3,5):
                    cmp('JointTrajectory',th,th+1,2.0,N,meth); cmp('ScrewTrajectory',M,Tg,2.0,N,meth); cmp('CartesianTrajectory',M,Tg,2.0,N,meth)
for t in np.linspace(0,2,11): cmp('CubicTimeScaling',2.0,t); cmp('QuinticTimeScaling',2.0,t)
print('functions covered',len(worst))
for k,v in sorted(worst.items(), key=lambda kv:-kv[1])[:15]: print(f'{k:28s} {v:.2e}')
print('exceptions',dict(exc)); print('shape mismatches',dict(shape))
