import sys; sys.path.insert(0, "/tmp/scratch/repo")
import numpy as np, warnings, time, copy
warnings.filterwarnings('ignore')
from basic_robotics.general import tm, fsr, fmr, Wrench
from basic_robotics.kinematics import Arm, loadArmFromURDF
import modern_robotics as ref
np.set_printoptions(precision=5, suppress=True, linewidth=200)
def mkarm(base):
    L1=4.5;L2=3.75;L3=3.75;W=0.1
    ee = fsr.TAAtoTM(np.array([[L2+L3+W+W+W],[0],[L1],[0],[0],[0]]))
    axes = np.array([[0, 0, 1],[0, 1, 0],[0, 1, 0],[1, 0, 0],[0, 1, 0],[1, 0, 0]]).T
    homes = np.array([[0, 0, 0],[0, 0, L1],[L2, 0, L1],[L2+L3, 0, L1],[L2+L3+W, 0, L1],[L2+L3+2*W, 0, L1]]).T
    S = np.zeros((6,6))
    for i in range(6): S[:,i] = np.hstack((axes[:,i], np.cross(homes[:,i], axes[:,i])))
    Tspace = [tm(np.array([[0],[0],[L1/2],[0],[0],[0]])), tm(np.array([[L2/2],[0],[L1],[0],[0],[0]])), tm(np.array([[L2+(L3/2)],[0],[L1],[0],[0],[0]])),
            tm(np.array([[L2+L3+(W/2)],[0],[L1],[0],[0],[0]])), tm(np.array([[L2+L3+W+(W/2)],[0],[L1],[0],[0],[0]])), tm(np.array([[L2+L3+W+W+(W/2)],[0],[L1],[0],[0],[0]]))]
    dims = np.array([[W, W, L1],[L2, W, W],[L3, W, W],[W, W, W],[W, W, W],[W, W, W]]).T
    Mt=[None]*7; Mt[0]=Tspace[0]
    for i in range(1,6): Mt[i]=Tspace[i-1].inv()@Tspace[i]
    Mt[6]=Tspace[5].inv()@ee
    masses=np.array([20,20,20,1,1,1.]); G=np.zeros((6,6,6))
    for i in range(6): G[i]=fsr.boxSpatialInertia(masses[i],dims[0,i],dims[1,i],dims[2,i])
    arm = Arm(base, S.copy(), ee, homes, axes)
    arm.setJointProperties(np.ones(6)*-2*np.pi, np.ones(6)*2*np.pi)
    arm.setOrigins(link_homes_global=Tspace); arm.setMassProperties(masses, Mt, G); arm.setVisColProperties(link_dimensions=dims)
    return arm
