#!/venv/bin/python
"""Prints the measured-coverage table of DESIGN 8.6 from evidence/*.json and a thorough-sweep log (notes/)."""
import glob, json, re, sys
log = open(sys.argv[1]).read() if len(sys.argv) > 1 else ""
th = {}
for m in re.finditer(r"()(C\d+) thorough seed=0 (\{.*?\}) wall=([\d.]+)s violations=(\d+)", log):
    th[m.group(2)] = (json.loads(m.group(3)), float(m.group(4)), int(m.group(5)))
print("| id | level | quick tier (evidence file) | quick wall | thorough tier (sweep log) |\n|---|---|---|---|---|")
for p in sorted(glob.glob("/verif/evidence/C*.json")):
    e = json.load(open(p)); c = e["coverage"]; pid = e["property_id"]
    if e["level"] == "model_checking":
        q = "%d states / %d transitions / %d traces validated" % (c.get("states", 0), c.get("transitions", 0), c.get("traces_validated_against_impl", 0))
    else:
        q = "%d evaluations / %d distinct non-trivial" % (c.get("evaluations", 0), c.get("distinct_nontrivial", 0))
    t = th.get(pid)
    tq = "-"
    if t:
        tc = t[0]
        tq = ("%d states / %d transitions" % (tc["states"], tc["transitions"]) if "states" in tc else "%d evaluations" % tc["evaluations"]) + " (%.0f s, %d violations)" % (t[1], t[2])
    print("| %s | %s | %s | %.0f s | %s |" % (pid, e["level"], q, e["wall_s"], tq))
