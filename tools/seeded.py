#!/venv/bin/python
"""Handling of seeded property-breaking changes (never committed to /repo).

  tools/seeded.py confirm <src_dir> <id> <property> [--tests <pytest args>] [--preserving]
        src_dir holds patch.diff, demo.py, note.md.  In a fresh scratch worktree of /repo's HEAD: demo must exit 0 on the
        clean tree and non-zero with the patch; the baseline test-suite must give the same pass/fail set with the patch.
        On success the files are stored as /verif/seeded/<id>/ with meta.json.  With --preserving the change is one that
        keeps the property true (meta kind "preserving", key breaks_property names the property it was written AGAINST): the
        demo must exit 0 on both trees; every check is expected to stay silent on it.
  tools/seeded.py run <id> [<check> ...] [--tier quick]
        applies seeded/<id>/patch.diff to /repo's working tree, runs the given checks (default: the property's own),
        records exit status and VIOLATION lines in meta.json["runs"], and ALWAYS restores /repo (git checkout -- .).
  tools/seeded.py runwt <id> [<check> ...]   the same in a scratch worktree (VERIF_REPO), usable in parallel
  tools/seeded.py table      prints the detection matrix (markdown)
"""
import json
import os
import shutil
import subprocess
import sys
import tempfile
import time

VERIF = os.path.dirname(os.path.dirname(os.path.abspath(__file__)))
REPO = "/repo"
SEEDED = os.path.join(VERIF, "seeded")
PY = "/venv/bin/python"
BASE_FAIL = 5


def sh(cmd, **kw):
    return subprocess.run(cmd, shell=isinstance(cmd, str), capture_output=True, text=True, **kw)


def test_summary(wt, args):
    """Sorted FAILED test ids plus the passed count (teardown ERROR lines of the socket tests vary from run to run)."""
    thr = "OMP_NUM_THREADS=1 OPENBLAS_NUM_THREADS=1 MKL_NUM_THREADS=1 NUMBA_NUM_THREADS=1 MPLBACKEND=agg"
    r = sh("cd %s && %s %s -m pytest -q -p no:cacheprovider --timeout=900 -rf %s 2>&1 | grep -E '^FAILED| passed' "
           "| sed -E 's/ in [0-9.]+s.*//; s/, [0-9]+ warnings?//; s/, [0-9]+ errors?//' | sort" % (wt, thr, PY, args))
    return r.stdout.strip()


def confirm(src, sid, prop, tests="tests", preserving=False):
    wt = tempfile.mkdtemp(prefix="seedchk_", dir="/tmp")
    os.rmdir(wt)
    try:
        assert sh(["git", "-C", REPO, "worktree", "add", "-q", "--detach", wt, "HEAD"]).returncode == 0
        env = dict(os.environ, PYTHONPATH=wt, NUMBA_CACHE_DIR=os.path.join(wt, ".nbcache_clean"), MPLBACKEND="agg")
        demo = os.path.join(src, "demo.py")
        r0 = sh([PY, demo], cwd=wt, env=env)
        base = test_summary(wt, tests)
        ap = sh(["git", "-C", wt, "apply", os.path.join(os.path.abspath(src), "patch.diff")])
        if ap.returncode != 0:
            print("patch does not apply:", ap.stderr)
            return 2
        env["NUMBA_CACHE_DIR"] = os.path.join(wt, ".nbcache_patched")
        r1 = sh([PY, demo], cwd=wt, env=env)
        patched = test_summary(wt, tests)
        ok = r0.returncode == 0 and (r1.returncode == 0 if preserving else r1.returncode != 0) and base == patched
        print("demo clean rc=%d, patched rc=%d; tests identical: %s" % (r0.returncode, r1.returncode, base == patched))
        if base != patched:
            print("--- clean\n%s\n--- patched\n%s" % (base, patched))
        if r0.returncode != 0:
            print(r0.stdout[-1500:], r0.stderr[-1500:])
        if not ok:
            return 1
        dst = os.path.join(SEEDED, sid)
        os.makedirs(dst, exist_ok=True)
        for f in ("patch.diff", "demo.py", "note.md"):
            if os.path.exists(os.path.join(src, f)):
                shutil.copy(os.path.join(src, f), os.path.join(dst, f))
        head = sh(["git", "-C", REPO, "rev-parse", "--short", "HEAD"]).stdout.strip()
        note = open(os.path.join(src, "note.md")).read() if os.path.exists(os.path.join(src, "note.md")) else ""
        meta = {"id": sid, "breaks_property": prop, "kind": "preserving" if preserving else "breaking",
                "repo_head_when_confirmed": head,
                "needs_to_manifest": note.strip()[:1500],
                "confirmation": {"demo_clean_rc": r0.returncode, "demo_patched_rc": r1.returncode,
                                 "demo_patched_tail": (r1.stdout + r1.stderr)[-600:],
                                 "tests": tests, "tests_clean": base.splitlines()[-1:] , "tests_identical_with_patch": True,
                                 "ran": "scratch worktree of HEAD; demo clean/patched; pytest %s clean/patched" % tests},
                "runs": []}
        json.dump(meta, open(os.path.join(dst, "meta.json"), "w"), indent=1)
        print("stored", dst)
        return 0
    finally:
        sh(["git", "-C", REPO, "worktree", "remove", "--force", wt])
        shutil.rmtree(wt, ignore_errors=True)


def run(sid, checks, tier="quick"):
    d = os.path.join(SEEDED, sid)
    meta = json.load(open(os.path.join(d, "meta.json")))
    if not checks:
        checks = [meta["breaks_property"]]
    st = sh(["git", "-C", REPO, "status", "--porcelain", "--untracked-files=no"]).stdout.strip()
    if st:
        print("/repo has local modifications; refusing:", st)
        return 2
    ap = sh(["git", "-C", REPO, "apply", os.path.join(d, "patch.diff")])
    if ap.returncode != 0:
        print("patch does not apply to /repo HEAD:", ap.stderr)
        return 2
    try:
        for c in checks:
            t0 = time.time()
            r = sh(["./check", c, "--tier", tier], cwd=VERIF)
            viol = [l for l in r.stdout.splitlines() if l.startswith("VIOLATION")]
            clauses = sorted({l.split("clause=")[1].split(" ")[0] for l in r.stdout.splitlines() if l.strip().startswith("clause=")})
            rec = {"check": c, "tier": tier, "exit": r.returncode, "violations": len(viol), "clauses": clauses[:12],
                   "wall_s": round(time.time() - t0, 1),
                   "repo_head": sh(["git", "-C", REPO, "rev-parse", "--short", "HEAD"]).stdout.strip()}
            if r.returncode == 2:
                rec["harness_error"] = [l for l in r.stdout.splitlines() if "HARNESS-ERROR" in l][:1]
            meta["runs"] = [x for x in meta["runs"] if not (x["check"] == c and x["tier"] == tier)] + [rec]
            print(sid, c, tier, "exit", r.returncode, "violations", len(viol), clauses[:6], "%.0fs" % (time.time() - t0))
    finally:
        sh(["git", "-C", REPO, "checkout", "--", "."])
        json.dump(meta, open(os.path.join(d, "meta.json"), "w"), indent=1)
    return 0


def runwt(sid, checks, tier="quick"):
    """Like run(), but in a scratch worktree of /repo's HEAD (VERIF_REPO=<worktree>), so several changes can be tried at once.
    A miss seen here is re-run with run() on /repo itself before it is believed (load can trip a check's wall-clock caps)."""
    d = os.path.join(SEEDED, sid)
    meta = json.load(open(os.path.join(d, "meta.json")))
    if not checks:
        checks = [meta["breaks_property"]]
    wt = tempfile.mkdtemp(prefix="seedrun_", dir="/tmp")
    os.rmdir(wt)
    try:
        assert sh(["git", "-C", REPO, "worktree", "add", "-q", "--detach", wt, "HEAD"]).returncode == 0
        ap = sh(["git", "-C", wt, "apply", os.path.join(d, "patch.diff")])
        if ap.returncode != 0:
            print("patch does not apply to /repo HEAD:", ap.stderr)
            return 2
        for c in checks:
            t0 = time.time()
            r = sh(["./check", c, "--tier", tier], cwd=VERIF, env=dict(os.environ, VERIF_REPO=wt))
            viol = [l for l in r.stdout.splitlines() if l.startswith("VIOLATION")]
            clauses = sorted({l.split("clause=")[1].split(" ")[0] for l in r.stdout.splitlines() if l.strip().startswith("clause=")})
            rec = {"check": c, "tier": tier, "exit": r.returncode, "violations": len(viol), "clauses": clauses[:12],
                   "wall_s": round(time.time() - t0, 1), "where": "scratch worktree via VERIF_REPO",
                   "repo_head": sh(["git", "-C", REPO, "rev-parse", "--short", "HEAD"]).stdout.strip()}
            if r.returncode == 2:
                rec["harness_error"] = [l for l in r.stdout.splitlines() if "HARNESS-ERROR" in l][:1]
            meta["runs"] = [x for x in meta["runs"] if not (x["check"] == c and x["tier"] == tier)] + [rec]
            print(sid, c, tier, "exit", r.returncode, "violations", len(viol), clauses[:6], "%.0fs" % (time.time() - t0))
    finally:
        sh(["git", "-C", REPO, "worktree", "remove", "--force", wt])
        shutil.rmtree(wt, ignore_errors=True)
        json.dump(meta, open(os.path.join(d, "meta.json"), "w"), indent=1)
    return 0


def table():
    rows = []
    for sid in sorted(os.listdir(SEEDED)):
        mp = os.path.join(SEEDED, sid, "meta.json")
        if not os.path.exists(mp):
            continue
        m = json.load(open(mp))
        if m.get("kind") == "preserving":
            continue
        caught = [r["check"] + ("/" + r["tier"][0]) for r in m["runs"] if r["exit"] == 1]
        missed = [r["check"] + ("/" + r["tier"][0]) for r in m["runs"] if r["exit"] == 0]
        first = m["needs_to_manifest"].splitlines()[0][:110] if m["needs_to_manifest"] else ""
        rows.append("| %s | %s | %s | %s | %s |" % (sid, m["breaks_property"], ", ".join(caught) or "-", ", ".join(missed) or "-", first.replace("|", "/")))
    print("| seeded change | property | caught by | not caught by | what it is |\n|---|---|---|---|---|")
    print("\n".join(rows))
    rows = []
    for sid in sorted(os.listdir(SEEDED)):
        mp = os.path.join(SEEDED, sid, "meta.json")
        m = json.load(open(mp)) if os.path.exists(mp) else {}
        if m.get("kind") != "preserving":
            continue
        silent = [r["check"] + ("/" + r["tier"][0]) for r in m["runs"] if r["exit"] == 0]
        alarm = [r["check"] + ("/" + r["tier"][0]) for r in m["runs"] if r["exit"] != 0]
        first = m["needs_to_manifest"].splitlines()[0][:110] if m["needs_to_manifest"] else ""
        rows.append("| %s | %s | %s | %s | %s |" % (sid, m["breaks_property"], ", ".join(silent) or "-", ", ".join(alarm) or "-", first.replace("|", "/")))
    if rows:
        print("\n| property-preserving change | property | silent | alarm | what it is |\n|---|---|---|---|---|")
        print("\n".join(rows))


if __name__ == "__main__":
    a = sys.argv[1:]
    if a[0] == "confirm":
        tests = "tests"
        if "--tests" in a:
            tests = a[a.index("--tests") + 1]
        sys.exit(confirm(a[1], a[2], a[3], tests, preserving="--preserving" in a))
    if a[0] in ("run", "runwt"):
        tier = "quick"
        if "--tier" in a:
            tier = a[a.index("--tier") + 1]
            del a[a.index("--tier"):a.index("--tier") + 2]
        sys.exit((run if a[0] == "run" else runwt)(a[1], a[2:], tier))
    if a[0] == "table":
        table()
