#!/venv/bin/python
"""Regenerates MANIFEST.json from the table below (keeps it valid at all times) and validates it."""
import json, os, subprocess, sys
HERE = os.path.dirname(os.path.dirname(os.path.abspath(__file__)))
BASE = "cd /repo && /venv/bin/python -m pytest -ra -q -p no:cacheprovider --timeout=900 --continue-on-collection-errors"

# id -> (engine, level, technique, level text, level note, design ref)
CHECKS = {
 "C10": ("HX", "model_checking",
         "explicit-state BFS over operation histories of a real Stewart platform (pickle snapshots, canonical state hashing, from-scratch replay) for subsets of the four validation switches, with coherence and every enabled constraint recomputed independently after every call",
         "41-operation alphabet {IK to 12 in/out-of-workspace and edge targets (one crossing the deflection limit under a re-spin), FK x4 length vectors x both solvers, FK at an explicit base x2, reverse FK x4 length vectors, move x3, spinCustom, spinCustom+validate, validate x2, inverseJacobian, staticForces, carryMassCalc, inverseJacobian / staticForces at explicitly given poses of both plates, scripted randomPos} on 3 geometries (newSP at the origin, newSP on a rotated offset base, makeSP with thick plates; moves include a base tilted 69 degrees) x 6 (quick) / 16 (thorough) switch subsets, fresh and re-spun starts, depth 2 (quick) / 3 (thorough): every call returns, joints/lengths/relative transform coherent to 1e-9, valid => all enabled constraints hold, pure queries leave both plates unchanged, un-invert preserves leg lengths.",
         "Depth <= 3 (not the 25 of the quantifier text); FK answers and corrective actions are environment answers (checked, not predicted); FK accuracy itself is C09's. Allowance for rotation angles in (0,1e-6] (the exponential's cut-off).", "DESIGN 4/C10"),
 "C17": ("LX", "exploration",
         "bounded-exhaustive enumeration of all 47 @jit kernels x input lattices x 5 array layouts and of every public tm/Arm/SP entry point for every link/joint index, executed in three fresh processes (compiled, NUMBA_BOUNDSCHECK=1, interpreter) whose per-case digests are compared",
         "27 932 (quick) / 72 763 (thorough) cases per mode: an IndexError or any exception in a checked mode where the compiled mode returned, or any value difference (1e-12; solver kernels 1e-9) between modes, is a violation; post-call contents of arguments and their parent arrays are part of the digest, so stray writes show up as value differences.  A kernel without a hand-made input lattice is a reported coverage gap (NOTICE, exhaustive:false), not an error.",
         "Negative indices wrap legally in both checked modes; layouts the explicit signatures reject are counted, not failed; iterative solver entry points are value-compared only between the two compiled modes.", "DESIGN 4/C17"),
 "C02": ("LX", "exploration",
         "bounded-exhaustive differential enumeration: for each of the 47 shared functions the complete (quick: deterministically strided) product of argument palettes is run through the port and through the vendored reference library, results compared by shape and value",
         "Rigid-body algebra on the C01 lattices (incl. non-members near the membership thresholds), all chains J^n for n <= 3 (n = 4 complete in thorough) and windows to 7 joints for FK/Jacobians/IK/dynamics, time scalings, joint/screw/Cartesian trajectories N = 2..12, dynamics trajectories and simulated control; 'never raises where the reference returns'; the port's previous result must survive its next call; one set of argument buffers per function is primed, overwritten in place and re-used (memo keyed on argument identity); IK: success meets tolerances and both solvers agree where sigma_min >= 0.05.",
         "float64 C-contiguous arguments only (layouts are C17's); cases where the reference itself returns non-finite values or sits on the 1e-6 cut-off tie are counted and skipped; quick tier thinned with strides coprime to all palette sizes (listed in the rule).", "DESIGN 4/C02"),
 "C09": ("LX", "exploration",
         "bounded-exhaustive enumeration over a platform-geometry family x bases x re-spins x the complete 3^6 relative-pose grid, against point-to-point distances computed from plate-fixed coordinates read once at the neutral pose; FK round trip on a fixed sub-lattice with a committed known-finding case list",
         "IK lengths equal joint-to-joint distances (1e-9), rigid-motion invariance, re-spin clause (at neutral and non-neutral poses, twice in a row), FK of the lengths (both solver paths) recovers pose and lengths to 1e-3 of the neutral height for every in-workspace pose; histories 'FK, spinCustom, FK', 'IK, IK' (the earlier result must survive) and 'IK, move both pose objects in place, IK'; FK with the bottom plate given explicitly elsewhere (generic rigid motion / ceiling mount), differentially against FK from the platform's own base; quick: 8 geometries (one with thick plates, long steep legs and the short stroke) at bases {identity, generic, seed-generic, 63-degree tilt}, thorough: all 432 + seed geometry.",
         "FK failures are matched against known_findings/c09_fk_cases.txt (KF2: explicit case ids with a marginal band, one structural class for fsolve started from a zero rotation vector); any unlisted failure is a violation. Time caps are reported with exhaustive:false.", "DESIGN 4/C09"),
 "C11": ("LX", "exploration",
         "bounded-exhaustive enumeration over geometries x bases x the 3^6 pose grid x the complete twist/wrench bases, against Richardson differences of the IK lengths and independent statics",
         "inverseJacobian columns equal Richardson central differences of leg lengths along spatial twists of the top plate (1e-6), static equilibrium, summed actuator wrenches, inverse statics, the body-frame pair, and the mass-carrying variant with plate and shaft weights at their centres of gravity, at identity, a generic, a seed-generic and a far base (cond(J^-1) 1e3..1e4 there), on every in-workspace pose with cond <= 1e4; the same Wrench object handed over twice, and the history 'statics, inverseJacobian, spinCustom, same poses, statics', and a query at an explicitly given other pose followed by the argument-less queries.",
         "Finite geometry/pose lattice; conventions (moment-first wrenches, Ad^T frame change) are themselves verified by a dedicated part; linear maps decided on complete bases.", "DESIGN 4/C11"),
 "C16": ("CX", "model_checking",
         "stateless choice-sequence exploration (prefix replay, default answer 0, branching at every later environment question, deviation-bounded) of the real RRT* growth loop with the sampler and the random source scripted; tree invariants and an independent brute-force nearest-neighbour replay of the insertion order on every complete execution",
         "All sample sequences over a 10-pose menu for iteration budgets 1-3 (quick) / 1-4 (thorough) with a draw horizon, deviation-bounded runs to budget 12, histories that grow the same planner again with a smaller budget and query again (also with the distance mode switched in between), configurations whose caller-supplied collision detector is not the planner's own, and the default findPath path with random.uniform scripted per coordinate, crossed with 4 obstruction layouts x 2 distance modes x 3 neighbour limits: rootedness, acyclic parent links, cost bookkeeping, edge freedom, acceptance range, choice of parent, node count, returned path.",
         "Budgets <= 4 exhaustively (<= 12 near the default answer); executions that exhaust the draw horizon are counted, not judged; the supplied collision detector itself is C15's subject. A time cap (reported, exhaustive:false) bounds the run on a loaded machine.", "DESIGN 4/C16, 3.3"),
 "C08": ("LX", "exploration",
         "bounded-exhaustive enumeration: all revolute chains of 1..3 joints over a 6-joint palette x link-frame and inertia schemes x joint-state lattice, windows of 4..7 joints, and arms through the Arm-level API, against an independent product-of-exponentials dynamics oracle",
         "All 6^n joint sequences for n <= 3 x 4 link-frame schemes x 3 inertia schemes x {0,0.3,-1.2,pi/2}^n states, cyclic windows for n = 4..7, three/four arms: M symmetric positive definite and equal to sum J^T G J, gravity = gradient of potential, passivity and the Lagrange form of the velocity-product term (Richardson differences), term-by-term torque decomposition, forward/inverse round trips, energy drift under RK4 with step refinement, agreement of every Arm-level implementation with the port, a sequence that overwrites one set of argument buffers in place across states, the history 'query everything, replace the inertias through the public setter, query again', (second stage: link frames replaced through setOrigins), a byte comparison of every argument after every call, tiny steps (1e-6, 2e-7) in the reuse sequence, rates / wrenches whose components cancel in a plain sum, a state with joint values of a few 1e-5 rad, and whole-radian joint vectors given as int64 arrays and lists of ints.",
         "Finite lattices (quick tier thinned deterministically as stated in the rule); revolute joints; mass pattern per inertia scheme fixed. Oracle identities validated against the vendored reference in the self-tests.", "DESIGN 4/C08"),
 "C13": ("LX", "exploration",
         "bounded-exhaustive enumeration over generated programs: the complete product of per-joint URDF variants for 1 and 2 moving joints, scheduled families for 3..8 joints with every fixed-joint placement pattern, loaded by the real loader and compared with an independent XML->kinematics interpreter",
         "The 5 bundled files plus 73 k (quick) / 195 k (thorough) generated single-chain URDFs: full product {origin full/no rpy/no xyz/omitted} x {axis x,z,-z,generic,omitted} x {revolute, continuous} x fixed-joint placements x world link x inertial data for n <= 2, rotating schedules for n = 3..8, half-turn spellings, continuous joints with effort/velocity-only limits; dof count, joint order and names, limits as written and FK at 5 joint vectors to 1e-6; every file is written to the same path, the previous file is recorded and replayed as history.",
         "Strictly serial trees, revolute/continuous/fixed joints only (the property's quantifier); origin and limit values rotate through fixed palettes rather than entering the product. KF1 matched only when the deviation shows the logarithm's signature.", "DESIGN 4/C13"),
 "C14": ("HX", "exploration",
         "exhaustive enumeration of length-3 histories (build operands -> call -> one in-place mutation of the result) executed from scratch over a 306-entry table of operators/accessors/helpers x operand palettes x every mutation site, with byte/identity/extent fingerprints",
         "Every public operator, accessor, copy constructor and in-scope helper of tm/Screw/Wrench/fsr, all 47 shared Modern Robotics functions plus extras, the Arm/SP constructors and loaders, and all default-argument objects (treated as hidden operands) are exercised with 2-3 operand palettes each; operands must be byte-identical afterwards, results must not share memory with operands, and no mutation of a result may reach an operand or a default; for operators, copies and accessors a result that IS an operand is a violation; tm / fsr entries also with operands whose rotation vector is wound beyond a full turn.",
         "Histories of length 3 only (one call, one mutation); snapshots are never used because they would sever the sharing under test. Exclusions exactly as the property lists them.", "DESIGN 4/C14"),
 "C19": ("HX", "model_checking",
         "explicit-state BFS over router operation histories on the real Comms hub with in-memory endpoint doubles and a scripted fake socket, against a bag-valued reference model; plus TLC enumeration of a TLA+ model of the hub whose every edge is replayed against the implementation",
         "Direct exploration: all histories to depth 4 (quick) / 6 (thorough) over a 67-operation alphabet on 2 endpoints (+UDP endpoint on a fake socket, 3-endpoint hub in thorough) with the explorer choosing message/no-data at every receive position; handlers are registered both as callable objects and as bound methods; one source reports the empty text.  The hub's rule set is OBSERVED (probe receive on every endpoint and a probe spin on a pickled copy), never read from its tables; the scripted socket has a descriptor that is readable when a datagram is pending. Conformance: the complete TLC state graph of tla/Router.tla (quick 8 449 states / 278 817 edges; thorough 114 689 / 3.2 M) is dumped and every edge replayed on the real hub.",
         "Bounded depth and hub size (<= 3 endpoints, 2 sinks, 1 source); sockets are scripted doubles; delivery order within a bag is not judged. Without tlc on PATH the check falls back to the direct exploration and says so.", "DESIGN 4/C19, 3.4"),
 "C07": ("LX", "exploration",
         "bounded-exhaustive enumeration of goal x start x tolerance-setting x solver-path lattices on arms in four structural states, plus complete enumeration of restart-vector sequences (scripted random source); errors recomputed independently",
         "Per arm and state: goals from in-limit joint vectors (generic, 0.15 rad from a limit, on a limit), starts (exact, +-0.02 rad on every joint, far, zeros, current, a full turn outside the limits), three tolerance settings with position != orientation tolerance, both solver paths; tolerance-boundary goals (the only inputs that expose a tolerance swap); the same boundary goals through one scripted restart limited to its entry test; unreachable goals; all 9 restart-vector sequences of length 2 over a 3-vector menu; one generated chain whose joint ranges exclude 0; the boundary restart on both solver paths; a failed solve followed by an ordinary one on the same arm; a jog of five position tolerances with the start vector defaulted. Success => recomputed errors within the matching tolerances, inside limits, state = solution; failure => coherent state; local convergence on the stated sub-domain.",
         "Finite lattices; the solver's joint vectors are environment answers; restarts fully scripted. Free solver on chains with prismatic joints excluded for unreachable goals (joint values leave the property's [-2pi,2pi] range).", "DESIGN 4/C07"),
 "C12": ("LX", "exploration",
         "bounded-exhaustive enumeration: all ordered frame triples x complete 6-vector basis x {Screw, Wrench} x every operand form on both sides of every operator, against independent adjoint formulas",
         "729 (quick) / 2744 (thorough) frame triples (palette includes near-duplicate frames) x basis+generic vectors for the change-of-frame group action, pairing invariance, point-force moments, cross-frame sums/differences, and the vector-space laws over 19 operand forms (Python/NumPy scalars, flat and column arrays of float and int dtype, objects) reaching every isinstance branch and fall-through of the overloads; part 'shared': two objects on one frame object, the target frame object moved in place between the two changes; the payload edited (element assignment / in-place write) between two changes of frame; the constructor's array unchanged by a change of frame, integer-valued payloads also as int64 arrays.",
         "Finite frame palette kept >= 1e-3 away from half-turn relative rotations (KF1 territory) and from the 1e-6 cut-off; linear maps decided on complete bases.", "DESIGN 4/C12"),
 "C18": ("LX", "exploration",
         "bounded-exhaustive enumeration: all ordered pose pairs/triples of a palette off the origin, all step sizes/counts, every sphere point count, an angle lattice in four operand forms, against independent NumPy relations",
         "11 poses (|p| up to 10, angles up to pi-1e-3, none through the world origin) -> all pairs/triples for mirror, midpoints, lookAt, planes, metric axioms, gap closing, straight paths, twists; every point count 1..2000 (thorough) for both sphere samplers; 318 angles as scalars/arrays/6-vectors/tm for angle wrapping; chain and numerical Jacobians against analytic ones; frame objects re-posed in place between two uses, pose pairs differing by a pure translation, pairs 4e-7 apart; every IKPath count 2..200 on three pairs; the 15 deprecated entry points against the function their notice names; sphere samplers after the caller scaled a result in place; distance with mixed argument containers.",
         "Finite palettes; closeArcGap direction claimed only for un-rotated origins (the repository's own test pins the other behaviour); helpers outside the statement's list are not checked.", "DESIGN 4/C18"),
 "C06": ("LX", "exploration",
         "bounded-exhaustive enumeration: arms x all structural histories (move / tool change / restore, length <= 2) x joint-vector palette x complete rate and wrench bases; Jacobians compared with Richardson differences of the library's FK and with an independent product-of-exponentials reference",
         "At each of 43 structurally distinct states per arm (histories of length <= 2 over {move x2, tool change x3 incl. a turn-only one, restore}) and 4-6 joint vectors (one with joint values of a few 1e-5 rad): space Jacobian = derivative of FK (Richardson, steps 1e-4/2e-4, 1e-6 relative), body / link (every index) / tool-aligned / numerical variants after the change of frame, velocity = J qd, statics = J^T F with power balance on the complete bases, inverse statics where sigma_min >= 0.05, link-weight moments on arms with inertial data; plus every ordered pair of queries on ONE arm object with shared argument objects (query-after-query interference, argument mutation), also with the shared joint vector advanced in place between the two queries; link weights re-evaluated with one link made massless; inverse statics also a few 1e-5 rad beside singular configurations located with the reference Jacobian; 'query, structural change, query again' on one object.",
         "Finite palettes of joint vectors and histories of length <= 2; linear maps are decided on complete bases. Link masses/centres are taken from the loaded arm as data.", "DESIGN 4/C06"),
 "C05": ("HX", "model_checking",
         "explicit-state BFS over operation histories of real Arm objects paired with a product-of-exponentials reference model; solver answers are environment answers; from-scratch replay of every state's history",
         "Per arm (6 quick / 14 thorough: 6R test arm at identity and at a base, bundled URDF arms, generated 1-7 joint chains incl. prismatic) every history of length <= 2 (quick) / <= 4 (thorough) over a 25-operation alphabet {FK x7, IK x6, move x3, a move by micrometres, a move whose pose object the caller edits afterwards, setArbitraryHome x3, restoreOriginalEE, randomPos x2, the pure queries asked on the live object} is executed (quick depth 2, thorough depth 4); after every transition base pose, reported tool pose, joint state, joint frames and defaulted-argument queries are compared with base*PoE*home.",
         "Depth <= 4 (not the 10 of the quantifier text); finite theta palette; reference built from copies of the construction data (URDF arms from the loaded arm, loader is C13's). KF1 (re-basing of joint frames with near-pi rotations) and KF3 (URDF 'last joint' frame after tool change) are matched narrowly as known findings.", "DESIGN 4/C05"),
 "C20": ("LX", "exploration",
         "bounded-exhaustive enumeration of all array shapes (extent 0..4, rank 0..5) x dtypes x fills x decimals x titles and of object kinds, with numeric fields parsed back from the rendered text",
         "All 3906 shapes x 3 dtypes x fill patterns x decimals x titles in table mode, all 2-D shapes in LaTeX mode, scalars/strings/None, all nested list/tuple trees to depth 3 over small leaf alphabets, tm/Wrench and lists of them: totality, print == return, and element faithfulness (rank<=4, |x|<9999) decided by an independent parser in exact Decimal arithmetic (fills include values between half a display unit and one unit for every number of decimals); two-call histories in a re-loaded display module (primer rendering, then an ordinary one) for every nd.",
         "Finite shape/value lattice; content of non-array renderings only checked for totality and print agreement, as the property states.", "DESIGN 4/C20"),
 "C01": ("LX", "exploration",
         "bounded-exhaustive enumeration: complete Cartesian products of branch-boundary palettes (axes x angles x translations, all pose pairs) through the real kernels against an independent NumPy oracle",
         "Every clause of the statement is evaluated on the complete product of 15 axes x 33 angles (x 6 translations) placed on both sides of the 1e-6 cut-off, the acos clamps and the half-turn sub-branches, plus all ordered pairs of a ~360-pose palette for the homomorphism laws; axes tilted 1e-5..1e-4 rad off the coordinate axes; every half turn also as the exactly symmetric matrix 2aa^T-I with translations.",
         "Finite palettes; values between lattice points are not covered. True exp/log from oracles/se3.py (self-tested against scipy expm). KF1 (log near pi) matched only when the port still equals the vendored reference.", "DESIGN 4/C01"),
 "C04": ("LX", "exploration",
         "bounded-exhaustive enumeration: every palette pose in every constructor form, all ordered triples of a pose sub-palette, against independent matrices",
         "~190 poses (9 angles incl. 1e-7, 1e-5, 1e-3, pi-1e-3) x 17 constructor forms (incl. the rpy variants of the nested pair, 3-array and 6-column) and all 13 824 (quick) / 216 000 (thorough) ordered pose triples are executed on the real tm class and frame-conversion helpers; results compared with independently built 4x4 matrices; constructor forms are re-read after the caller refilled its array; part 'stale': 12 poses x 10 writers x 14 queries as query-write-query histories on one object.",
         "Finite palettes; rpy read as Rx*Ry*Rz as the property says; KF1 band (composed rotation within 3e-5 of pi) matched as known finding.", "DESIGN 4/C04"),
 "C15": ("LX", "exploration",
         "exhaustive enumeration of all lattice segment/box pairs through the real obstruction test against an integer-exact slab-clipping decision procedure",
         "All ordered pairs of lattice end points x all integer boxes (quick 3.4 M pairs on {-2..2}^3 x {-1..1}^3; thorough 397 M on {-3..3}^3 x {-2..2}^3), 26 boxes with a side of length 3 in the quick tier, every fourth segment also against the boxes registered by the other pair of opposite corners, an affine non-dyadic image of the lattice where the exact answer is robust, all two-box sets over a sub-palette, and planner-reuse histories (register X, query, change the set to Y in four public ways, query).",
         "Exactness argument: every intermediate is a dyadic rational on the integer lattice. Oracle validated against fractions.Fraction in the self-tests. Float inputs off the (affine) lattice are not covered.", "DESIGN 4/C15"),
 "C03": ("HX", "model_checking",
         "explicit-state BFS over operation histories of the real tm object, depth-bounded, with from-scratch replay of every state's history",
         "Every history of length <= 2 (quick) / <= 3 (thorough) over a ~880-transition alphabet of constructors, setters, slice/element assignments (incl. from-the-end indices and open-ended slices), quaternion updates and operators is executed on the real class (incl. 'construct from an array, then the caller refills that array', 'construct twice from one array, write to one twin', 'derive an object, write through one of the two', open-ended and strided slices, exact half turns through the matrix side, 'matrix-side write then the old vector written back'; angles 2e-5 and 3e-4 added to the property's palette); the coherence invariant is evaluated in every reached state and on every returned object.",
         "Bounded depth and finite value palette (the one the property names); states merged at 1e-9; independent Rodrigues oracle; KF1 band matched as a known finding.", "DESIGN 4/C03"),
}
# sentences added to a check's level text by later waves of seeded changes (DESIGN 8.5)
MORE = {
 "C02": " The first 8 cases of every function with two same-shaped array parameters are also called with ONE array object for both (reference: separate copies).",
 "C05": " The alphabet also holds 'a second arm of the same kind is built and used' - alone and, inside one transition, right after randomPos / FK / IK on the arm under test (state shared between two live objects).",
 "C08": " Arms are also asked with joint limits narrower than the state (every answer must match the port at q as given or at q clamped, as a whole), after the caller edited the link frames of the list it passed in place, and always after ANOTHER arm was asked first in the same process (run and replay alike).",
 "C10": " The alphabet also holds 'FK(fsolve) / IK, then a second platform of another geometry is built and driven' inside one transition.",
 "C15": " The quick lattice is also carried to the far corner of the stated range by the integer translation (7,-8,9): 1.25 M pairs, exact, boundary contact included, either corner order.",
 "C19": " A further configuration has two real UDP objects on fake sockets carrying the SAME display name (depth 4 quick / 5 thorough).",
}
ALL = ["C%02d" % i for i in range(1, 21)]
NOT_YET = "check not built yet in this session (planned, see DESIGN 4); nothing is claimed for it until it is"

def main():
    checks = []
    for pid in ALL:
        if pid not in CHECKS:
            continue
        eng, level, tech, text, note, ref = CHECKS[pid]
        text += MORE.get(pid, "")
        checks.append({
            "property_id": pid,
            "quick_cmd": "./check %s --tier quick" % pid,
            "thorough_cmd": "./check %s --tier thorough" % pid,
            "evidence_file": "/verif/evidence/%s.json" % pid,
            "replay_cmd_template": "./check %s --replay {path}" % pid,
            "engine": eng,
            "level_claimed": {"category": level, "text": text, "design_ref": ref},
            "level_note": note,
            "technique": tech,
        })
    fixes = []
    m = {
        "version": 1,
        "setup_cmd": "cd /verif && ./setup.sh",
        "hooks": {"guard": "BASIC_ROBOTICS_VERIF",
                  "enable": "no source hooks: checks import /repo's working tree as is (random sources, sockets, endpoint tables and planner callbacks are replaced from outside); the variable is exported by the runner for completeness",
                  "baseline_off_cmd": BASE, "source_commits": [], "add_only": True},
        "engines": [
            {"name": "HX", "path": "mc/explorer.py", "serves_properties": [p for p in CHECKS if CHECKS[p][0] == "HX"],
             "kind_free_text": "explicit-state breadth-first exploration of operation histories on the real objects (pickle snapshots, canonical state hashing, from-scratch replay validation)"},
            {"name": "LX", "path": "mc/lattice.py", "serves_properties": [p for p in CHECKS if CHECKS[p][0] == "LX"],
             "kind_free_text": "bounded-exhaustive enumeration of complete Cartesian products of branch-boundary palettes against independent oracles"},
            {"name": "CX", "path": "mc/choices.py", "serves_properties": [p for p in CHECKS if CHECKS[p][0] == "CX"],
             "kind_free_text": "stateless choice-sequence explorer for scripted environment answers (random draws, receive faults), deviation-bounded"},
        ],
        "checks": checks,
        "not_applicable": [{"property_id": p, "reason": NOT_YET} for p in ALL if p not in CHECKS],
        "notes": "All checks: ./check <ID> [--tier quick|thorough] [--replay path]; exit 0 held / 1 VIOLATION / 2 harness error. Known findings in known_findings.jsonl. See DESIGN.md.",
    }
    p = os.path.join(HERE, "MANIFEST.json")
    with open(p, "w") as f:
        json.dump(m, f, indent=1)
    code = "import json,sys,jsonschema;jsonschema.validate(json.load(open(sys.argv[1])), json.load(open(sys.argv[2])))"
    r = subprocess.run(["python3-vt", "-c", code, p, os.path.join(HERE, "selftest", "MANIFEST.schema.json")], capture_output=True, text=True)
    print("MANIFEST valid" if r.returncode == 0 else r.stderr)
    sys.exit(r.returncode)

if __name__ == "__main__":
    main()
