#!/venv/bin/python
"""Regenerates MANIFEST.json from the table below (keeps it valid at all times) and validates it."""
import json, os, subprocess, sys
HERE = os.path.dirname(os.path.dirname(os.path.abspath(__file__)))
BASE = "cd /repo && /venv/bin/python -m pytest -ra -q -p no:cacheprovider --timeout=900 --continue-on-collection-errors"

# id -> (engine, level, technique, level text, level note, design ref)
CHECKS = {
 "C03": ("HX", "model_checking",
         "explicit-state BFS over operation histories of the real tm object, depth-bounded, with from-scratch replay of every state's history",
         "Every history of length <= 2 (quick) / <= 3 (thorough) over a ~780-transition alphabet of constructors, setters, slice/element assignments, quaternion updates and operators is executed on the real class; the coherence invariant is evaluated in every reached state and on every returned object.",
         "Bounded depth and finite value palette (the one the property names); states merged at 1e-9; independent Rodrigues oracle; KF1 band matched as a known finding.", "DESIGN 4/C03"),
}
ALL = ["C%02d" % i for i in range(1, 21)]
NOT_YET = "check not built yet in this session (planned, see DESIGN 4); nothing is claimed for it until it is"

def main():
    checks = []
    for pid in ALL:
        if pid not in CHECKS:
            continue
        eng, level, tech, text, note, ref = CHECKS[pid]
        checks.append({
            "property_id": pid,
            "quick_cmd": "./check %s --tier quick" % pid,
            "thorough_cmd": "./check %s --tier thorough" % pid,
            "evidence_file": "/verif/evidence/%s.json" % pid,
            "replay_cmd_template": "./check %s --replay {path}" % pid,
            "engine": eng,
            "level_claimed": {"category": level, "text": text, "design_ref": ref},
            "level_note": note,
            "technique": tech,
        })
    fixes = []
    m = {
        "version": 1,
        "setup_cmd": "cd /verif && ./setup.sh",
        "hooks": {"guard": "BASIC_ROBOTICS_VERIF",
                  "enable": "no source hooks: checks import /repo's working tree as is (random sources, sockets, endpoint tables and planner callbacks are replaced from outside); the variable is exported by the runner for completeness",
                  "baseline_off_cmd": BASE, "source_commits": [], "add_only": True},
        "engines": [
            {"name": "HX", "path": "mc/explorer.py", "serves_properties": [p for p in CHECKS if CHECKS[p][0] == "HX"],
             "kind_free_text": "explicit-state breadth-first exploration of operation histories on the real objects (pickle snapshots, canonical state hashing, from-scratch replay validation)"},
            {"name": "LX", "path": "mc/lattice.py", "serves_properties": [p for p in CHECKS if CHECKS[p][0] == "LX"],
             "kind_free_text": "bounded-exhaustive enumeration of complete Cartesian products of branch-boundary palettes against independent oracles"},
            {"name": "CX", "path": "mc/choices.py", "serves_properties": [p for p in CHECKS if CHECKS[p][0] == "CX"],
             "kind_free_text": "stateless choice-sequence explorer for scripted environment answers (random draws, receive faults), deviation-bounded"},
        ],
        "checks": checks,
        "not_applicable": [{"property_id": p, "reason": NOT_YET} for p in ALL if p not in CHECKS],
        "notes": "All checks: ./check <ID> [--tier quick|thorough] [--replay path]; exit 0 held / 1 VIOLATION / 2 harness error. Known findings in known_findings.jsonl. See DESIGN.md.",
    }
    p = os.path.join(HERE, "MANIFEST.json")
    with open(p, "w") as f:
        json.dump(m, f, indent=1)
    code = "import json,sys,jsonschema;jsonschema.validate(json.load(open(sys.argv[1])), json.load(open(sys.argv[2])))"
    r = subprocess.run(["python3-vt", "-c", code, p, os.path.join(HERE, "selftest", "MANIFEST.schema.json")], capture_output=True, text=True)
    print("MANIFEST valid" if r.returncode == 0 else r.stderr)
    sys.exit(r.returncode)

if __name__ == "__main__":
    main()
