#!/venv/bin/python
"""tools/add_fixed.py <property> <Dxx> <commit> <what failed> - appends a 'fixed' record to known_findings.jsonl."""
import json, sys, os
prop, key, commit, what = sys.argv[1:5]
p = os.path.join(os.path.dirname(os.path.dirname(os.path.abspath(__file__))), "known_findings.jsonl")
rec = {"property": prop, "key": key, "status": "fixed", "commit": commit, "what": what,
       "record": "fixed: property=%s %s %s" % (prop, commit, what)}
open(p, "a").write(json.dumps(rec) + "\n")
print(rec["record"])
