"""Reference model of a message hub (property C19) and the in-memory doubles the exploration plugs into the real hub.

Part A - `RouterModel`: deliberately boring.  Dicts of ordered sets (lists without duplicates), one entry per
registered endpoint name.  `step(action)` updates the rule sets and returns what the property says the call must do:
  changed    True/False for calls that report "it changed the rule set" (None where the property says nothing)
  returns    ("msg", text) / ("none",) for a receive, None elsewhere
  sent       bag {(endpoint, payload): n}  - one hub->endpoint delivery per active forwarding rule / source / send
  sunk       bag {(sink, payload): n}      - one call per active sink
  src_calls  bag {source: n}               - how often each source callable is invoked
  nodata     True when no receive position of this action yields data (nothing may be delivered, nothing raised)
The model never looks at the implementation.

Actions (plain tuples, JSON friendly):
  ("fwd", i, o) ("del", i, o) ("sink", i, k|None) ("src", o, s|None) ("recv", e, text|None) ("send", e, text)
  ("open", e) ("close", e) ("spin", k, {e: [text|None]*k})

Part B - doubles: `Dbl` (the CommsObject interface with an answer script, a log of what the hub asked it to send, an open flag),
`Sink`, `Src` (picklable callables), `FakeSocket` + `FakeSocketModule` (stand-in for the `socket` module seen by
`udp_bridge`, so that a real UDPObject can be opened, closed, sent to and received from without a network).
All of them are module level so that explored states pickle.

Part C - `ToyHub`: a small hub with the same interface as the library's `Comms`, written from the property (not copied
from the library), with switchable seeded faults.  Only the self-tests use it: it lets the harness (world, judge,
TLC bridge) be exercised, and its sensitivity demonstrated, without the library.
"""
from collections import Counter

NODATA = None


class RouterModel:
    def __init__(self, endpoints, sinks=(), sources=()):
        self.E = tuple(endpoints)
        self.K = tuple(sinks)
        self.S = tuple(sources)
        self.fwd = {e: [] for e in self.E}      # input endpoint -> ordered set of output endpoints
        self.sinks = {e: [] for e in self.E}    # input endpoint -> ordered set of sink names
        self.srcs = {e: [] for e in self.E}     # output endpoint -> ordered set of source names
        self.open = {e: True for e in self.E}

    # -- canonical content (used for state hashing and for comparison with an abstracted implementation) -----------
    def tables(self):
        return {"fwd": Counter((i, o) for i in self.E for o in self.fwd[i]),
                "sinks": Counter((i, k) for i in self.E for k in self.sinks[i]),
                "srcs": Counter((o, s) for o in self.E for s in self.srcs[o]),
                "open": {e for e in self.E if self.open[e]}}

    def key(self):
        return {"fwd": {e: list(v) for e, v in self.fwd.items()}, "sinks": {e: list(v) for e, v in self.sinks.items()},
                "srcs": {e: list(v) for e, v in self.srcs.items()}, "open": dict(self.open)}

    # -- the property -------------------------------------------------------------------------------------------------
    @staticmethod
    def _exp(changed=None, returns=None, nodata=False):
        return {"changed": changed, "returns": returns, "sent": Counter(), "sunk": Counter(), "src_calls": Counter(),
                "nodata": nodata}

    def _deliver(self, exp, e, text):
        """A message received on e goes exactly once to each active rule of e."""
        for o in self.fwd[e]:
            exp["sent"][(o, text)] += 1
        for k in self.sinks[e]:
            exp["sunk"][(k, text)] += 1

    def step(self, a):
        kind = a[0]
        E = self.E
        if kind == "fwd":
            _, i, o = a
            ch = i in E and o in E and o not in self.fwd[i]
            if ch:
                self.fwd[i].append(o)
            return self._exp(changed=ch)
        if kind == "del":
            _, i, o = a
            ch = i in E and o in E and o in self.fwd[i]
            if ch:
                self.fwd[i].remove(o)
            return self._exp(changed=ch)
        if kind == "sink":
            _, i, k = a
            ch = i in E and k is not None and k not in self.sinks[i]
            if ch:
                self.sinks[i].append(k)
            return self._exp(changed=ch)
        if kind == "src":
            _, o, s = a
            ch = o in E and s is not None and s not in self.srcs[o]
            if ch:
                self.srcs[o].append(s)
            return self._exp(changed=ch)
        if kind == "recv":
            _, e, text = a
            live = e in E and self.open[e] and text is not NODATA
            exp = self._exp(returns=("msg", text) if live else ("none",), nodata=not live)
            if live:
                self._deliver(exp, e, text)
            return exp
        if kind == "send":
            _, e, text = a
            exp = self._exp()
            if e in E:
                exp["sent"][(e, text)] += 1
            return exp
        if kind == "open":
            _, e = a
            ch = e in E and not self.open[e]
            if e in E:
                self.open[e] = True
            return self._exp(changed=ch)
        if kind == "close":
            _, e = a
            ch = e in E and self.open[e]
            if e in E:
                self.open[e] = False
            return self._exp(changed=ch)
        if kind == "spin":
            _, k, scripts = a
            exp = self._exp()
            any_live = False
            for it in range(k):
                for e in E:
                    for s in self.srcs[e]:          # each spin sends each source's value once to its endpoint
                        exp["sent"][(e, Src.value_of(s))] += 1
                        exp["src_calls"][s] += 1
                    ans = (list(scripts.get(e, ())) + [NODATA] * k)[it]
                    if self.open[e] and ans is not NODATA:
                        if self.fwd[e] or self.sinks[e]:
                            any_live = True
                        self._deliver(exp, e, ans)
            exp["nodata"] = not any_live
            return exp
        raise ValueError("unknown action %r" % (a,))


# ---------------------------------------------------------------------------------------------------------------------
# doubles
# ---------------------------------------------------------------------------------------------------------------------
class Dbl:
    """In-memory double of the CommsObject interface (same attributes and methods as
    basic_robotics.interfaces.comms_object.CommsObject; `interface_gaps` verifies that against the library).
    It is registered directly in the hub's endpoint table."""

    def __init__(self, name):
        self.name = name
        self.type = "double"
        self.comm_handle = None
        self.open = True
        self.last_rx_success = True
        self.last_tx_success = True
        self.last_rx_data = None
        self.script = []     # answers of the environment for the next receive positions (text or None = no data)
        self.sent = []       # every datum the hub asked this endpoint to send, in order
        self.polls = 0       # receive positions consumed since the last reset

    def sendData(self, data):
        self.sent.append(data)
        return bool(self.open)

    def getData(self):
        if not self.open:
            return None
        self.polls += 1
        if self.script:
            return self.script.pop(0)
        return None

    def openCom(self):
        if not self.open:
            self.open = True
            return True
        return False

    def closeCom(self):
        if self.open:
            self.open = False
            return True
        return False

    def getRxSuccess(self):
        return self.last_rx_success

    def getTxSuccess(self):
        return self.last_tx_success

    def setName(self, name):
        self.name = name

    def getName(self):
        return self.name


def interface_gaps(base_cls, double_cls=Dbl):
    """Public methods and instance attributes of the library's CommsObject that the double lacks ([] = none)."""
    gaps = [m for m in dir(base_cls) if not m.startswith("_") and callable(getattr(base_cls, m))
            and not callable(getattr(double_cls, m, None))]
    have = vars(double_cls("x"))
    gaps += [a for a in vars(base_cls("x")) if a not in have]
    return gaps


class Sink:
    """Picklable sink callable; what it was called with is kept in the explored state."""

    def __init__(self, name):
        self.name = name
        self.got = []

    def __call__(self, data):
        self.got.append(data)


class Src:
    """Picklable source callable; produces a constant value that names it."""

    def __init__(self, name):
        self.name = name
        self.calls = 0

    @staticmethod
    def value_of(name):
        # the source "s0" reports the empty text: a value that is falsy but still has to be sent once per spin
        return "" if name == "s0" else "src:" + name

    def __call__(self):
        self.calls += 1
        return Src.value_of(self.name)


class FakeSocket:
    """Stand-in for a UDP socket: `recvfrom` answers from a script (a text = one datagram, None = time-out),
    `sendto` logs.  Raises like a real socket when used after close."""
    PEER = ("10.0.0.7", 9000)

    def __init__(self, *a):
        self.script = []
        self.sent = []
        self.polls = 0
        self.closed = False
        self.bound = None
        self.timeout = None
        self._pair = None           # (readable end, writer end, armed?) - OS objects, never pickled

    def settimeout(self, t):
        self.timeout = t

    def gettimeout(self):
        return self.timeout

    # A library that waits with select/poll/selectors instead of catching the time-out needs a descriptor: a socket pair
    # whose readable end is readable exactly when the next scripted answer is a datagram.
    def fileno(self):
        import socket
        if self.closed:
            return -1                                   # what a closed socket reports (select then raises ValueError)
        if self._pair is None:
            r, w = socket.socketpair()
            r.setblocking(False)
            self._pair = [r, w, False]
        r, w, armed = self._pair
        if self.script and self.script[0] is None:
            # asking for the descriptor is the start of a wait; a scripted "nothing arrives" answers that wait (the library
            # will not call recvfrom for it), so it is consumed here
            self.script.pop(0)
            self.polls += 1
            want = False
        else:
            want = bool(self.script)
        if want and not armed:
            w.send(b"x")
        elif armed and not want:
            try:
                r.recv(16)
            except BlockingIOError:
                pass
        self._pair[2] = want
        return r.fileno()

    def _drop_pair(self):
        if self._pair is not None:
            for x in self._pair[:2]:
                try:
                    x.close()
                except OSError:
                    pass
            self._pair = None

    def __getstate__(self):
        d = dict(self.__dict__)
        d["_pair"] = None
        return d

    def __del__(self):
        self._drop_pair()

    def bind(self, addr):
        self.bound = tuple(addr)

    def sendto(self, payload, addr):
        if self.closed:
            raise OSError(9, "Bad file descriptor")
        if not isinstance(payload, (bytes, bytearray)):
            raise TypeError("a bytes-like object is required, not %r" % type(payload).__name__)
        self.sent.append((bytes(payload), tuple(addr)))
        return len(payload)

    def recvfrom(self, n):
        import socket
        if self.closed:
            raise OSError(9, "Bad file descriptor")
        self.polls += 1
        ans = self.script.pop(0) if self.script else None
        if ans is None:
            raise socket.timeout("timed out")      # == TimeoutError since Python 3.10
        return ans.encode("utf-8")[:n], FakeSocket.PEER

    def shutdown(self, how):
        if self.closed:
            raise OSError(9, "Bad file descriptor")

    def close(self):
        self.closed = True
        self._drop_pair()


class FakeSocketModule:
    """What `udp_bridge` sees as `socket` while the exploration runs (installed by install_fake_socket)."""
    AF_INET = 2
    SOCK_DGRAM = 2
    SHUT_RDWR = 2
    timeout = TimeoutError
    error = OSError
    socket = FakeSocket


def install_fake_socket():
    """Replace the name `socket` inside basic_robotics.interfaces.udp_bridge (the library file is not edited).
    Idempotent; every process that touches a UDPObject of the exploration calls it first."""
    from basic_robotics.interfaces import udp_bridge
    if udp_bridge.socket is not FakeSocketModule:
        udp_bridge.socket = FakeSocketModule
    return udp_bridge


# ---------------------------------------------------------------------------------------------------------------------
# toy hub (self-tests only)
# ---------------------------------------------------------------------------------------------------------------------
class ToyHub:
    FAULTS = ("nodata_fanout", "dup_rule", "del_true", "src_twice", "dest_sinks", "sinks_only", "empty_dropped",
              "wrong_port_open")

    def __init__(self, fault=None):
        self.fault = fault
        self.endpoints = {}
        self.forwarding = {}
        self.output_functions = {}
        self.input_functions = {}

    def getCom(self, name):
        return self.endpoints.get(name)

    def _add(self, table, key, item):
        lst = table.setdefault(key, [])
        if item in lst and self.fault != "dup_rule":
            return False
        lst.append(item)
        return True

    def setForwardData(self, i, o):
        if i not in self.endpoints or o not in self.endpoints:
            return False
        return self._add(self.forwarding, i, self.endpoints[o])

    def deleteForwardingRule(self, i, o):
        if o in self.endpoints and self.endpoints[o] in self.forwarding.get(i, []):
            self.forwarding[i].remove(self.endpoints[o])
            return True
        return self.fault == "del_true"

    def setDataSink(self, i, fn):
        if i not in self.endpoints or fn is None:
            return False
        return self._add(self.output_functions, i, fn)

    def setDataSource(self, o, fn):
        if o not in self.endpoints or fn is None:
            return False
        return self._add(self.input_functions, o, fn)

    def openCom(self, name):
        if self.fault == "wrong_port_open" and name in self.endpoints:
            name = sorted(self.endpoints)[0]
        return self.endpoints[name].openCom() if name in self.endpoints else False

    def closeCom(self, name):
        return self.endpoints[name].closeCom() if name in self.endpoints else False

    def sendData(self, name, data):
        if name in self.endpoints:
            return self.endpoints[name].sendData(data)

    def getData(self, name):
        if name not in self.endpoints:
            return None
        data = self.endpoints[name].getData()
        if data is None and self.fault != "nodata_fanout":
            return None
        if data == "" and self.fault == "empty_dropped":
            return None
        if self.fault != "sinks_only" or name not in self.output_functions:
            for dest in self.forwarding.get(name, []):
                dest.sendData(data)
        sinks = self.output_functions.get(name, [])
        if self.fault == "dest_sinks":
            sinks = [f for dest in self.forwarding.get(name, []) for f in self.output_functions.get(dest.name, [])]
        for f in sinks:
            f(data)
        return data

    def spin(self, n=-1):
        for _ in range(n):
            for name, ep in self.endpoints.items():
                for f in self.input_functions.get(name, []):
                    ep.sendData(f())
                    if self.fault == "src_twice":
                        ep.sendData(f())
                if self.forwarding.get(name) or self.output_functions.get(name):
                    self.getData(name)
