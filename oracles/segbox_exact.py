"""Exact closed-segment versus closed-axis-aligned-box intersection (slab / Liang-Barsky clipping).

segbox_fraction: reference implementation in fractions.Fraction for any rational input.
segbox_int_vec:  the same decision for integer inputs, vectorised over many boxes, exact in int64
                 (cross-multiplied comparisons, no division); validated against the Fraction version in the self-tests.
Both also report `strict`: whether the segment meets the *open* box grown/shrunk by nothing, i.e. whether the answer
is robust (True,True = pierces the interior or lies inside; True,False = contact only).
"""
from fractions import Fraction

import numpy as np


def segbox_fraction(a, b, lo, hi):
    t0, t1 = Fraction(0), Fraction(1)
    for i in range(3):
        ai, bi, l, h = Fraction(a[i]), Fraction(b[i]), Fraction(lo[i]), Fraction(hi[i])
        if l > h:
            l, h = h, l
        d = bi - ai
        if d == 0:
            if ai < l or ai > h:
                return False
        else:
            u, v = (l - ai) / d, (h - ai) / d
            if u > v:
                u, v = v, u
            t0, t1 = max(t0, u), min(t1, v)
            if t0 > t1:
                return False
    return True


def segbox_int_vec(a, b, LO, HI):
    """a,b: int[3]; LO,HI: int[n,3] with LO<=HI.  Returns (closed_hit[n], interior_hit[n]) exactly.

    Parametrise t in [0,1]; with D = prod of non-zero |d_i| (<= 6^3 for the lattices used) all slab bounds
    t*D are integers, so max/min/compare are exact."""
    a = np.asarray(a, np.int64)
    b = np.asarray(b, np.int64)
    LO = np.asarray(LO, np.int64)
    HI = np.asarray(HI, np.int64)
    n = LO.shape[0]
    d = b - a
    D = 1
    for i in range(3):
        if d[i] != 0:
            D *= abs(int(d[i]))
    tlo = np.zeros(n, np.int64)            # t0 * D
    thi = np.full(n, D, np.int64)          # t1 * D
    ok = np.ones(n, bool)
    ok_strict = np.ones(n, bool)           # open box: strict inequalities in the static axes
    for i in range(3):
        if d[i] == 0:
            ok &= (a[i] >= LO[:, i]) & (a[i] <= HI[:, i])
            ok_strict &= (a[i] > LO[:, i]) & (a[i] < HI[:, i])
        else:
            m = D // abs(int(d[i]))
            s = 1 if d[i] > 0 else -1
            u = (LO[:, i] - a[i]) * s * m
            v = (HI[:, i] - a[i]) * s * m
            lo_t = np.minimum(u, v)
            hi_t = np.maximum(u, v)
            tlo = np.maximum(tlo, lo_t)
            thi = np.minimum(thi, hi_t)
    closed = ok & (tlo <= thi)
    # interior hit: an open t-interval of positive length inside the open box (or a point strictly inside)
    if D == 1 and not d.any():
        interior = ok_strict
    else:
        interior = ok_strict & (tlo < thi)
    return closed, interior
