"""TLC bridge (DESIGN 3.4): run TLC on a TLA+ model, read the dumped state graph, and replay EVERY edge against an
implementation through an *adapter*.

  run_tlc(tla, cfg, tag)                 -> {"dot": path, "generated": n, "distinct": n, "depth": n, "wall_s": s}
  start_tlc(...) / wait_tlc(handle)      the same in two halves, so that TLC runs while the caller does other work
  parse_value(text) / parse_state(text)  -> TLA+ values as Python: set->frozenset, tuple->tuple, record/function->Rec,
                                            string->str, number->int, TRUE/FALSE->bool
  read_graph(dot)                        -> Graph(nodes, init, src, dst, labels)
  conformance(graph, adapter_ref, pool)  -> counts + mismatches; see below
  cstr(value)                            -> canonical text of a value (sets sorted), digest(value) its short hash

Adapter protocol (a module-level factory `mod.get_adapter(name)`; workers re-create it from (mod, name)):
  adapter.split(state)            -> (abstract_state, action)   abstract_state: hashable, what the implementation must
                                     be driven to; action: hashable, the action that PRODUCED this state (from obs)
  adapter.execute(path, actions)  -> [(impl_state, model_state)] for every action applied to the implementation
                                     state reached from scratch by `path` (a list of actions).  impl_state is the
                                     abstraction of the implementation after the action, in the shape of a parsed TLC
                                     state; model_state the same from an independent Python model (or None).

Replaying: for every edge s --a--> s' of the dump the expected s' is compared with the abstraction of the
implementation after applying a in (the implementation state reached by the shortest action path to a state with)
abs(s).  Executions are de-duplicated by (abs(s), a): a TLC state differs from another with the same abs only in the
observation of the action that led to it, which the implementation does not have.
"""
import hashlib
import os
import re
import shutil
import subprocess
import time
from array import array

from mc import env
from mc.pool import HarnessError, shards

CACHE = os.path.join(env.VERIF, ".cache", "tlc")


def tlc_available():
    return shutil.which("tlc") is not None


# ---------------------------------------------------------------------------------------------------------------------
# TLA+ values
# ---------------------------------------------------------------------------------------------------------------------
class Rec(dict):
    """TLA+ record or function with a finite domain; hashable."""

    def __hash__(self):
        return hash(frozenset(self.items()))


_TOK = re.compile(r'\s*(?:(<<|>>|\|->|:>|@@|/\\|[{}\[\](),=])|"((?:[^"\\]|\\.)*)"|(-?\d+)|([A-Za-z_][A-Za-z0-9_!]*))')


def _tokens(text):
    pos, n = 0, len(text)
    out = []
    while True:
        m = _TOK.match(text, pos)
        if not m:
            if text[pos:].strip():
                raise HarnessError("TLA value parser: cannot tokenise at %r" % text[pos:pos + 40])
            break
        pos = m.end()
        if m.group(1) is not None:
            out.append(("p", m.group(1)))
        elif m.group(2) is not None:
            out.append(("s", re.sub(r"\\(.)", lambda k: {"n": "\n", "t": "\t"}.get(k.group(1), k.group(1)), m.group(2))))
        elif m.group(3) is not None:
            out.append(("i", int(m.group(3))))
        else:
            out.append(("w", m.group(4)))
    return out


class _P:
    def __init__(self, toks):
        self.t, self.i = toks, 0

    def peek(self):
        return self.t[self.i] if self.i < len(self.t) else ("eof", None)

    def take(self, kind=None, val=None):
        tok = self.peek()
        if (kind is not None and tok[0] != kind) or (val is not None and tok[1] != val):
            raise HarnessError("TLA value parser: expected %r %r, found %r" % (kind, val, tok))
        self.i += 1
        return tok

    def seq(self, close):
        out = []
        if self.peek() == ("p", close):
            self.take()
            return out
        while True:
            out.append(self.value())
            tok = self.take("p")
            if tok[1] == close:
                return out
            if tok[1] != ",":
                raise HarnessError("TLA value parser: expected ',' or %r, found %r" % (close, tok))

    def value(self):
        kind, v = self.take()
        if kind == "s" or kind == "i":
            return v
        if kind == "w":
            if v == "TRUE":
                return True
            if v == "FALSE":
                return False
            return ("#mv", v)  # model value
        if v == "{":
            return frozenset(self.seq("}"))
        if v == "<<":
            return tuple(self.seq(">>"))
        if v == "[":
            r = Rec()
            while True:
                k = self.take("w")[1]
                self.take("p", "|->")
                r[k] = self.value()
                tok = self.take("p")
                if tok[1] == "]":
                    return r
                if tok[1] != ",":
                    raise HarnessError("TLA value parser: bad record")
        if v == "(":
            r = Rec()
            while True:
                k = self.value()
                self.take("p", ":>")
                r[k] = self.value()
                tok = self.take("p")
                if tok[1] == ")":
                    return r
                if tok[1] != "@@":
                    raise HarnessError("TLA value parser: bad function")
        raise HarnessError("TLA value parser: unexpected token %r" % ((kind, v),))


def parse_value(text):
    p = _P(_tokens(text))
    v = p.value()
    if p.peek()[0] != "eof":
        raise HarnessError("TLA value parser: trailing input %r" % (p.peek(),))
    return v


def parse_state(text):
    """'/\\ x = v /\\ y = w' (as TLC prints a state) -> Rec(x=v, y=w)."""
    p = _P(_tokens(text))
    st = Rec()
    while p.peek()[0] != "eof":
        p.take("p", "/\\")
        name = p.take("w")[1]
        p.take("p", "=")
        st[name] = p.value()
    if not st:
        raise HarnessError("TLA state parser: empty state %r" % text[:80])
    return st


def cstr(v):
    """Canonical text: independent of set/record order."""
    if isinstance(v, bool):
        return "TRUE" if v else "FALSE"
    if isinstance(v, int):
        return str(v)
    if isinstance(v, str):
        return '"%s"' % v.replace("\\", "\\\\").replace('"', '\\"')
    if isinstance(v, (frozenset, set)):
        return "{" + ",".join(sorted(cstr(x) for x in v)) + "}"
    if isinstance(v, dict):
        return "[" + ",".join(sorted(cstr(k) + ":" + cstr(x) for k, x in v.items())) + "]"
    if isinstance(v, tuple):
        return "<" + ",".join(cstr(x) for x in v) + ">"
    if v is None:
        return "None"
    raise HarnessError("cstr: unsupported %r" % (type(v),))


def digest(v):
    return hashlib.blake2b(cstr(v).encode(), digest_size=10).digest()


# ---------------------------------------------------------------------------------------------------------------------
# running TLC
# ---------------------------------------------------------------------------------------------------------------------
def _prune_stale(max_age_s=3 * 3600):
    """Dumps are large; remove what an interrupted earlier run may have left behind."""
    try:
        for d in os.listdir(CACHE):
            p = os.path.join(CACHE, d)
            if os.path.isdir(p) and time.time() - os.path.getmtime(p) > max_age_s:
                shutil.rmtree(p, ignore_errors=True)
    except OSError:
        pass


def start_tlc(tla, cfg, tag, deadlock_ok=False):
    """Start TLC in the background; the complete state graph of (tla, cfg) is dumped as a dot file under
    /verif/.cache/tlc/<tag>/ .  -> handle for wait_tlc."""
    work = os.path.join(CACHE, tag)
    _prune_stale()
    shutil.rmtree(work, ignore_errors=True)
    os.makedirs(work)
    dot = os.path.join(work, "graph.dot")
    cmd = ["tlc", "-workers", "1", "-noGenerateSpecTE", "-metadir", os.path.join(work, "meta"),
           "-dump", "dot,actionlabels", dot, "-config", os.path.abspath(cfg)]
    if deadlock_ok:
        cmd.append("-deadlock")
    cmd.append(os.path.abspath(tla))
    log = open(os.path.join(work, "tlc.out"), "w")
    proc = subprocess.Popen(cmd, cwd=work, stdout=log, stderr=subprocess.STDOUT)
    return {"proc": proc, "log": log, "work": work, "dot": dot, "cmd": " ".join(cmd), "t0": time.time()}


def wait_tlc(h, timeout=1500):
    try:
        h["proc"].wait(timeout=max(1.0, timeout - (time.time() - h["t0"])))
    except subprocess.TimeoutExpired:
        h["proc"].kill()
        h["log"].close()
        shutil.rmtree(h["work"], ignore_errors=True)
        raise HarnessError("tlc did not finish within %d s" % timeout)
    h["log"].close()
    wall = round(time.time() - h["t0"], 1)
    with open(os.path.join(h["work"], "tlc.out")) as f:
        out = f.read()
    work, dot = h["work"], h["dot"]
    shutil.rmtree(os.path.join(work, "meta"), ignore_errors=True)
    if "Model checking completed. No error has been found." not in out:
        shutil.rmtree(work, ignore_errors=True)
        raise HarnessError("TLC reported an error on the model itself (model-level invariant or parse error):\n" + out[-3000:])
    m = re.search(r"(\d+) states generated, (\d+) distinct states found, (\d+) states left on queue", out)
    d = re.search(r"depth of the complete state graph search is (\d+)", out)
    if not m or int(m.group(3)) != 0 or not os.path.exists(dot):
        shutil.rmtree(work, ignore_errors=True)
        raise HarnessError("TLC did not produce a complete graph: " + out[-1500:])
    return {"dot": dot, "work": work, "generated": int(m.group(1)), "distinct": int(m.group(2)),
            "depth": int(d.group(1)) if d else None, "wall_s": wall, "cmd": h["cmd"]}


def abort_tlc(h):
    try:
        h["proc"].kill()
        h["proc"].wait(timeout=30)
    except Exception:
        pass
    h["log"].close()
    shutil.rmtree(h["work"], ignore_errors=True)


def run_tlc(tla, cfg, tag, deadlock_ok=False, timeout=1500):
    return wait_tlc(start_tlc(tla, cfg, tag, deadlock_ok), timeout)


def cleanup(info):
    shutil.rmtree(info["work"], ignore_errors=True)


# ---------------------------------------------------------------------------------------------------------------------
# reading the dump
# ---------------------------------------------------------------------------------------------------------------------
_NODE = re.compile(r'^(-?\d+) \[label="((?:[^"\\]|\\.)*)"(.*)$')
_EDGE = re.compile(r'^(-?\d+) -> (-?\d+) \[label="((?:[^"\\]|\\.)*)"')
_UNESC = re.compile(r"\\(.)")


def _unescape(s):
    return _UNESC.sub(lambda m: "\n" if m.group(1) == "n" else m.group(1), s)


class Graph:
    def __init__(self):
        self.ids = {}            # TLC fingerprint -> dense index
        self.states = []         # dense index -> parsed state (Rec)
        self.init = []           # dense indices of initial states
        self.src = array("q")
        self.dst = array("q")
        self.lab = array("i")    # index into self.labels (action name as TLC printed it, without arguments)
        self.labels = []

    def n_edges(self):
        return len(self.src)


def read_graph(dot):
    """One pass over the dump.  Node lines carry the full state; edge lines `a -> b [label="Action(args)"...]`."""
    g = Graph()
    cache = {}
    lab_ix = {}
    pend_src, pend_dst = [], []
    with open(dot, "r") as f:
        for line in f:
            sp = line.find(" ")
            if sp > 0 and line.startswith("-> ", sp + 1):
                m = _EDGE.match(line)
                if not m:
                    raise HarnessError("dot reader: bad edge line %r" % line[:200])
                name = _unescape(m.group(3)).split("(", 1)[0]
                li = lab_ix.get(name)
                if li is None:
                    li = lab_ix[name] = len(g.labels)
                    g.labels.append(name)
                pend_src.append(int(m.group(1)))
                pend_dst.append(int(m.group(2)))
                g.lab.append(li)
                continue
            m = _NODE.match(line)
            if not m:
                continue
            fp = int(m.group(1))
            if fp in g.ids:
                continue
            text = m.group(2)
            st = cache.get(text)
            if st is None:
                st = cache[text] = parse_state(_unescape(text))
            g.ids[fp] = len(g.states)
            g.states.append(st)
            if "style = filled" in m.group(3) or "style=filled" in m.group(3):
                g.init.append(g.ids[fp])
    ids = g.ids
    try:
        g.src = array("q", [ids[x] for x in pend_src])
        g.dst = array("q", [ids[x] for x in pend_dst])
    except KeyError as e:
        raise HarnessError("dot reader: edge refers to a state that is not in the dump: %s" % e)
    if not g.init:
        raise HarnessError("dot reader: no initial state found")
    return g


def bfs_parents(g):
    """Shortest-path tree over the dumped graph: parent[v] = u (or -1 for initial states, -2 for unreachable)."""
    n = len(g.states)
    adj = [[] for _ in range(n)]
    src, dst = g.src, g.dst
    for i in range(len(src)):
        adj[src[i]].append(dst[i])
    parent = [-2] * n
    order = []
    for v in g.init:
        parent[v] = -1
        order.append(v)
    i = 0
    while i < len(order):
        u = order[i]
        i += 1
        for v in adj[u]:
            if parent[v] == -2:
                parent[v] = u
                order.append(v)
    if len(order) != n:
        raise HarnessError("dot reader: %d of %d dumped states are unreachable from the initial state" % (n - len(order), n))
    return parent, order


# ---------------------------------------------------------------------------------------------------------------------
# conformance
# ---------------------------------------------------------------------------------------------------------------------
def _adapter(mod, name):
    import importlib
    return importlib.import_module(mod).get_adapter(name)


def exec_worker(payload):
    """payload = (adapter module, adapter name, [(abs index, path, [actions])]) -> [(abs index, [(impl digest, model digest)])]"""
    mod, name, items = payload
    ad = _adapter(mod, name)
    out = []
    for ai, path, actions in items:
        res = ad.execute(path, actions)
        out.append((ai, [(digest(i), None if m is None else digest(m)) for i, m in res]))
    return out


def conformance(g, mod, name, pool, max_report=40, log=None):
    """Replay every edge of `g`.  Returns a dict with counts and `mismatches` (at most max_report, each with the
    action path, the action, the expected state and what the implementation produced)."""
    ad = _adapter(mod, name)
    n = len(g.states)
    parent, order = bfs_parents(g)
    split = [ad.split(s) for s in g.states]                 # (abstract, producing action)
    abs_ix, abs_list, abs_of = {}, [], [0] * n
    rep = []                                                # abstract index -> first node in BFS order
    for v in order:
        a = split[v][0]
        k = abs_ix.get(a)
        if k is None:
            k = abs_ix[a] = len(abs_list)
            abs_list.append(a)
            rep.append(v)
        abs_of[v] = k

    def path_to(v):
        p = []
        while parent[v] >= 0:
            p.append(split[v][1])
            v = parent[v]
        p.reverse()
        return p
    # distinct (abstract source, action) pairs and, per pair, the digests of the successor states TLC produced
    act_ix, act_list = {}, []
    per_abs = [dict() for _ in abs_list]                     # abs index -> {action index: set(dst node)}
    src, dst = g.src, g.dst
    label_of = getattr(ad, "label_of", None)
    lab, labels = g.lab, g.labels
    for i in range(len(src)):
        a = split[dst[i]][1]
        j = act_ix.get(a)
        if j is None:
            j = act_ix[a] = len(act_list)
            act_list.append(a)
            if label_of is not None and label_of(a) != labels[lab[i]]:
                raise HarnessError("dot reader: edge labelled %r leads to a state produced by action %r"
                                   % (labels[lab[i]], a))
        d = per_abs[abs_of[src[i]]]
        s = d.get(j)
        if s is None:
            d[j] = {dst[i]}
        else:
            s.add(dst[i])
    items = []
    for k in range(len(abs_list)):
        acts = sorted(per_abs[k])
        if acts:
            items.append((k, path_to(rep[k]), [act_list[j] for j in acts]))
    n_exec = sum(len(it[2]) for it in items)
    if log:
        log("TLC bridge: %d states, %d edges, %d abstract states, %d distinct (abstract state, action) executions"
            % (n, len(src), len(abs_list), n_exec))
    nsh = max(1, min(len(items), pool.workers * 4))
    payloads = [(mod, name, items[lo:hi]) for lo, hi in shards(len(items), nsh)]
    res = pool.map("oracles.tlc_bridge", "exec_worker", payloads)
    got = {}
    for part in res:
        for k, lst in part:
            for j, pair in zip(sorted(per_abs[k]), lst):
                got[(k, j)] = pair
    node_digest = [None] * n
    bad_pairs, model_bad = {}, {}
    ok_edges = 0
    for i in range(len(src)):
        v = dst[i]
        k = abs_of[src[i]]
        j = act_ix[split[v][1]]
        dg = node_digest[v]
        if dg is None:
            dg = node_digest[v] = digest(g.states[v])
        impl_d, model_d = got[(k, j)]
        if model_d is not None and model_d != dg:
            model_bad.setdefault((k, j), v)
        if impl_d == dg:
            ok_edges += 1
        else:
            e = bad_pairs.setdefault((k, j), [v, 0])
            e[1] += 1
    mismatches = []
    for (k, j), (v, cnt) in sorted(bad_pairs.items(), key=lambda kv: (len(path_to(rep[kv[0][0]])), kv[0]))[:max_report]:
        path = path_to(rep[k])
        impl_state, _ = ad.execute(path, [act_list[j]])[0]
        mismatches.append({"path": path, "action": act_list[j], "expected": g.states[v], "observed": impl_state,
                           "edges": cnt})
    model_mis = []
    for (k, j), v in sorted(model_bad.items())[:5]:
        path = path_to(rep[k])
        _, model_state = ad.execute(path, [act_list[j]])[0]
        model_mis.append({"path": path, "action": act_list[j], "tlc": cstr(g.states[v]), "python_model": cstr(model_state)})
    per_action = {}
    for i in range(len(g.lab)):
        nm = g.labels[g.lab[i]]
        per_action[nm] = per_action.get(nm, 0) + 1
    return {"states": n, "transitions": len(src), "abstract_states": len(abs_list), "executions": n_exec,
            "edges_validated": ok_edges, "edges_mismatching": len(src) - ok_edges,
            "mismatching_executions": len(bad_pairs), "mismatches": mismatches,
            "model_disagreements": len(model_bad), "model_mismatches": model_mis,
            "edges_per_action": per_action, "max_path_len": max((len(it[1]) for it in items), default=0)}
