"""Independent description of a Stewart platform's published state (plain NumPy, no import of the library).

A platform is two rigid plates.  `Ref` holds what is fixed to the plates: the joint coordinates in the plate frames,
the leg directions of the neutral pose (the reference of the joint-deflection constraint) and the limits.  Everything
else - joints in space, leg lengths, relative transform, which constraints hold - is a function of the two plate poses.

Constraint definitions (read off sp_model.py:1242-1305; margins are the library's own):
  legs        every joint-to-joint distance in [leg_min, leg_max]                           (no margin)
  above       z of the top origin in the bottom frame >= 0                                  (no margin)
  deflection  at every joint the angle between the leg and the neutral-pose leg, both in the joint's own plate frame,
              <= deflection_max; a NaN angle counts as violated                             (no margin)
  tilt        every diagonal entry of the relative rotation > tilt_limit - 1e-4
"""
import numpy as np

TILT_MARGIN = 1e-4
NAMES = ("legs", "above", "deflection", "tilt")


def tinv(T):
    R, p = T[:3, :3], T[:3, 3]
    out = np.eye(4)
    out[:3, :3] = R.T
    out[:3, 3] = -R.T @ p
    return out


def rotz(a):
    c, s = np.cos(a), np.sin(a)
    return np.array([[c, -s, 0.0], [s, c, 0.0], [0.0, 0.0, 1.0]])


def apply(T, P):
    """Pose applied to a 3xN table of points."""
    return T[:3, :3] @ np.asarray(P, float) + T[:3, 3:4]


def rel(B, T):
    return tinv(B) @ T


def angle(u, v):
    """Angle in [0, pi] between two 3-vectors (atan2 form: accurate at 0 and pi); NaN for a zero vector."""
    nu, nv = np.linalg.norm(u), np.linalg.norm(v)
    if not (nu > 0 and nv > 0):
        return float("nan")
    return float(np.arctan2(np.linalg.norm(np.cross(u, v)), np.dot(u, v)))


class Ref:
    """Plate-fixed data.  bl/tl: 3x6 joint coordinates in the bottom/top plate frame; home_rel: neutral relative pose."""

    def __init__(self, bl, tl, home_rel, leg_min, leg_max, deflection_max, tilt_limit):
        self.bl = np.array(bl, float)
        self.tl = np.array(tl, float)
        home_rel = np.array(home_rel, float)
        # where the partner joint sits, seen from each plate, at the neutral pose
        self.home_t_in_b = apply(home_rel, self.tl)
        self.home_b_in_t = apply(tinv(home_rel), self.bl)
        self.leg_min, self.leg_max = float(leg_min), float(leg_max)
        self.deflection_max = float(deflection_max)
        self.tilt_limit = float(tilt_limit)
        self.spins = 0

    def spin(self, a):
        """Re-spin: every plate-fixed point is rotated about the plate z axis (both plates by the same angle)."""
        R = rotz(a)
        self.bl, self.tl = R @ self.bl, R @ self.tl
        self.home_t_in_b, self.home_b_in_t = R @ self.home_t_in_b, R @ self.home_b_in_t
        self.spins += 1

    def size(self, B, T):
        """Length scale for the 1e-9 coherence tolerance: the largest coordinate in play, at least 1."""
        return max(1.0, float(np.abs(B[:3, 3]).max()), float(np.abs(T[:3, 3]).max()),
                   float(np.abs(self.bl).max()), float(np.abs(self.tl).max()))

    # ---- derived state --------------------------------------------------------------------------------------
    def joints(self, B, T):
        return apply(B, self.bl), apply(T, self.tl)

    def lengths(self, B, T):
        bj, tj = self.joints(B, T)
        return np.linalg.norm(tj - bj, axis=0)

    def deflections(self, B, T):
        """12 angles: bottom joints 0..5 then top joints 0..5."""
        X = rel(B, T)
        t_in_b = apply(X, self.tl)
        b_in_t = apply(tinv(X), self.bl)
        out = np.zeros(12)
        for i in range(6):
            out[i] = angle(t_in_b[:, i] - self.bl[:, i], self.home_t_in_b[:, i] - self.bl[:, i])
            out[6 + i] = angle(b_in_t[:, i] - self.tl[:, i], self.home_b_in_t[:, i] - self.tl[:, i])
        return out

    def constraints(self, B, T, slack=0.0):
        """name -> (holds, worst signed excess; > 0 means violated by that much)."""
        L = self.lengths(B, T)
        X = rel(B, T)
        d = self.deflections(B, T)
        out = {}
        e = max(float((self.leg_min - L).max()), float((L - self.leg_max).max()))
        out["legs"] = (bool(e <= slack), e)
        e = -float(X[2, 3])
        out["above"] = (bool(e <= slack), e)
        e = float("inf") if np.any(np.isnan(d)) else float((d - self.deflection_max).max())
        out["deflection"] = (bool(e <= slack), e)
        e = float((self.tilt_limit - TILT_MARGIN - np.diag(X[:3, :3])).max())
        out["tilt"] = (bool(e < 0.0) if slack == 0.0 else bool(e <= slack), e)      # strict: R_ii == limit-1e-4 is invalid
        return out


def rot_angle(R):
    s = 0.5 * np.linalg.norm([R[2, 1] - R[1, 2], R[0, 2] - R[2, 0], R[1, 0] - R[0, 1]])
    return float(np.arctan2(s, 0.5 * (np.trace(R) - 1.0)))


EXP_CUTOFF = 1e-6


def tiny_rotation_allowance(B, T):
    """The library's rotation exponential returns the identity for angles below 1e-6 (Modern Robotics' NearZero), so a
    pose whose matrix carries a rotation in (0, 1e-6) has a six-vector that describes it only to that angle (C03's
    documented band).  The published relative transform is computed through six-vectors; this is the error that can
    enter through the bottom pose, the top pose and the result: the sum of their angles that are below the cut-off,
    times the lever |p_top - p_bottom| (at least 1).  Zero for every pose outside that band."""
    X = rel(B, T)
    a = [rot_angle(M[:3, :3]) for M in (B, T, X)]
    s = sum(x for x in a if 0.0 < x <= EXP_CUTOFF * 1.01)
    return s * max(1.0, float(np.linalg.norm(X[:3, 3])))


def coherence(ref, B, T, bj_pub, tj_pub, L_pub, X_pub):
    """Residuals of the four coherence clauses between the published tables and the plate poses (absolute)."""
    bj, tj = ref.joints(B, T)
    bj_pub, tj_pub = np.asarray(bj_pub, float), np.asarray(tj_pub, float)
    L_pub = np.asarray(L_pub, float).reshape(-1)
    res = {}
    res["bottom_joints"] = _maxabs(bj_pub, bj, (3, 6))
    res["top_joints"] = _maxabs(tj_pub, tj, (3, 6))
    if bj_pub.shape == (3, 6) and tj_pub.shape == (3, 6) and L_pub.shape == (6,):
        res["leg_lengths"] = float(np.abs(L_pub - np.linalg.norm(tj_pub - bj_pub, axis=0)).max())
    else:
        res["leg_lengths"] = float("inf")
    res["relative_transform"] = _maxabs(np.asarray(X_pub, float), rel(B, T), (4, 4))
    return res


def _maxabs(a, b, shape):
    if a.shape != shape or not np.all(np.isfinite(a)):
        return float("inf")
    return float(np.abs(a - b).max())
