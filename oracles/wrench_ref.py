"""Reference frame-change algebra for screws (twist-like 6-vectors) and wrenches, plain NumPy, no library import.

Ordering is the Modern Robotics one, the same the classes under test use: angular / moment part FIRST
(twist V = (w, v), wrench F = (m, f)).  A frame is the 4x4 pose T_F of the frame in a common world.

  twist_change(TA, TB, V)   V_B = Ad(T_BA) V_A        with T_BA = inv(T_B) T_A   (MR 3.85 generalised)
  wrench_change(TA, TB, F)  F_B = Ad(T_AB)^T F_A      with T_AB = inv(T_A) T_B   (MR 3.98)

Independent second derivations used by the self-test (and by the force-at-a-point clauses of C12):
  twist_change_conj   matrix conjugation  [V_B] = T_BA [V_A] T_BA^-1
  wrench_from_point_force / point_force_about   elementary statics: moment = r x f about the new origin
"""
import numpy as np

from oracles import se3


def cross(a, b):
    """a x b written out (not np.cross)."""
    a = np.asarray(a, float).reshape(3)
    b = np.asarray(b, float).reshape(3)
    return np.array([a[1] * b[2] - a[2] * b[1], a[2] * b[0] - a[0] * b[2], a[0] * b[1] - a[1] * b[0]])


def rel(TA, TB):
    """Pose of frame B expressed in frame A: T_AB = inv(T_A) T_B (maps B-coordinates to A-coordinates)."""
    return se3.tinv(TA) @ TB


def twist_change(TA, TB, V):
    V = np.asarray(V, float).reshape(6)
    return se3.adj(rel(TB, TA)) @ V


def wrench_change(TA, TB, F):
    F = np.asarray(F, float).reshape(6)
    return se3.adj(rel(TA, TB)).T @ F


CHANGE = {"Screw": twist_change, "Twist": twist_change, "Wrench": wrench_change}


def twist_change_conj(TA, TB, V):
    """Same map through 4x4 conjugation of the se(3) matrix (no 6x6 adjoint involved)."""
    T = rel(TB, TA)
    M = T @ se3.hat6(V) @ se3.tinv(T)
    return np.array([M[2, 1], M[0, 2], M[1, 0], M[0, 3], M[1, 3], M[2, 3]])


def wrench_from_point_force(p, f):
    """Wrench (m, f) about the origin of the frame in which point p and force f are given."""
    return np.concatenate([cross(p, f), np.asarray(f, float).reshape(3)])


def point_force_about(TF, p, f, TG):
    """A force f applied at point p, both in coordinates of frame F; the wrench it exerts about the origin of
    frame G, in G coordinates - by elementary statics in the world (no adjoint)."""
    RF, pF = TF[:3, :3], TF[:3, 3]
    RG, pG = TG[:3, :3], TG[:3, 3]
    q = RF @ np.asarray(p, float).reshape(3) + pF
    fw = RF @ np.asarray(f, float).reshape(3)
    return np.concatenate([RG.T @ cross(q - pG, fw), RG.T @ fw])


def pure_couple_about(TF, m, TG):
    """A pure couple m (free vector) given in F, seen from G: only rotated."""
    return np.concatenate([TG[:3, :3].T @ (TF[:3, :3] @ np.asarray(m, float).reshape(3)), np.zeros(3)])


def pairing(F, V):
    """Power pairing of a wrench (m, f) with a twist (w, v): m.w + f.v."""
    return float(np.dot(np.asarray(F, float).reshape(6), np.asarray(V, float).reshape(6)))


def pi_margin(TA, TB):
    """pi minus the angle of the relative rotation between two frames."""
    return se3.PI - se3.rangle(TA[:3, :3].T @ TB[:3, :3])
