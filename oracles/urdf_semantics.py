"""Independent URDF -> forward-kinematics interpreter, written from the URDF specification (no import of the
library under test).

Semantics implemented (wiki.ros.org/urdf/XML/joint):
  * a <joint> connects <parent link=..> to <child link=..>; its <origin xyz rpy> is the pose of the child (= joint)
    frame in the parent link frame at joint value zero: translate by xyz, then rotate by fixed-axis roll-pitch-yaw,
    R = Rz(yaw) Ry(pitch) Rx(roll).  <origin> omitted -> identity; xyz omitted -> 0 0 0; rpy omitted -> 0 0 0.
  * revolute / continuous joints then rotate about <axis xyz> (given in the joint frame, normalised here) by the
    joint value; <axis> omitted -> 1 0 0.  Fixed joints contribute their origin only.
  * <limit lower upper> are the joint limits of a revolute joint; a continuous joint has none.
  * the chain starts at the root link (the link that is no joint's child) and is strictly serial; the tool frame is
    the frame of the last link.
Everything is float64 NumPy with explicit cos/sin; nothing goes through a matrix logarithm.
"""
import math
import xml.etree.ElementTree as ET

import numpy as np

MOVING = ("revolute", "continuous")


class URDFSemanticsError(Exception):
    pass


def rot_rpy(roll, pitch, yaw):
    cr, sr = math.cos(roll), math.sin(roll)
    cp, sp = math.cos(pitch), math.sin(pitch)
    cy, sy = math.cos(yaw), math.sin(yaw)
    Rx = np.array([[1.0, 0.0, 0.0], [0.0, cr, -sr], [0.0, sr, cr]])
    Ry = np.array([[cp, 0.0, sp], [0.0, 1.0, 0.0], [-sp, 0.0, cp]])
    Rz = np.array([[cy, -sy, 0.0], [sy, cy, 0.0], [0.0, 0.0, 1.0]])
    return Rz @ Ry @ Rx


def rot_axis(axis, angle):
    """Rodrigues: rotation by `angle` about the direction of `axis`."""
    a = np.asarray(axis, float).reshape(3)
    n = math.sqrt(float(a @ a))
    if n == 0.0:
        raise URDFSemanticsError("zero joint axis")
    x, y, z = a / n
    c, s = math.cos(angle), math.sin(angle)
    v = 1.0 - c
    return np.array([[c + x * x * v, x * y * v - z * s, x * z * v + y * s],
                     [y * x * v + z * s, c + y * y * v, y * z * v - x * s],
                     [z * x * v - y * s, z * y * v + x * s, c + z * z * v]])


def homog(R, p):
    T = np.eye(4)
    T[:3, :3] = R
    T[:3, 3] = np.asarray(p, float).reshape(3)
    return T


def _vec3(s, what):
    v = [float(x) for x in s.split()]
    if len(v) != 3:
        raise URDFSemanticsError("%s needs three numbers, got %r" % (what, s))
    return v


class Joint:
    __slots__ = ("name", "type", "parent", "child", "xyz", "rpy", "axis", "lower", "upper")

    def origin(self):
        return homog(rot_rpy(*self.rpy), self.xyz)


class Model:
    """Parsed file: .joints (chain order, root to tip), .root, .tip, .moving (the non-fixed joints in order)."""

    def __init__(self, source):
        if isinstance(source, str) and source.lstrip().startswith("<"):
            root = ET.fromstring(source)
        else:
            root = ET.parse(source).getroot()
        if root.tag != "robot":
            raise URDFSemanticsError("root element is <%s>, not <robot>" % root.tag)
        links = [l.get("name") for l in root.findall("link")]
        joints = []
        for je in root.findall("joint"):
            j = Joint()
            j.name = je.get("name")
            j.type = je.get("type")
            j.parent = je.find("parent").get("link")
            j.child = je.find("child").get("link")
            j.xyz, j.rpy = [0.0, 0.0, 0.0], [0.0, 0.0, 0.0]
            o = je.find("origin")
            if o is not None:
                if o.get("xyz") is not None:
                    j.xyz = _vec3(o.get("xyz"), "origin xyz")
                if o.get("rpy") is not None:
                    j.rpy = _vec3(o.get("rpy"), "origin rpy")
            j.axis = [1.0, 0.0, 0.0]
            a = je.find("axis")
            if a is not None and a.get("xyz") is not None:
                j.axis = _vec3(a.get("xyz"), "axis xyz")
            j.lower = j.upper = None
            lim = je.find("limit")
            if lim is not None and j.type != "continuous":
                j.lower = float(lim.get("lower", "0"))
                j.upper = float(lim.get("upper", "0"))
            if j.type not in MOVING + ("fixed",):
                raise URDFSemanticsError("joint type %r is outside the interpreted family" % j.type)
            joints.append(j)
        children = {j.child for j in joints}
        roots = [l for l in links if l not in children]
        if len(roots) != 1:
            raise URDFSemanticsError("expected exactly one root link, found %r" % (roots,))
        by_parent = {}
        for j in joints:
            if j.parent not in links or j.child not in links:
                raise URDFSemanticsError("joint %r references an undeclared link" % j.name)
            if j.parent in by_parent:
                raise URDFSemanticsError("link %r has two child joints: not a serial chain" % j.parent)
            by_parent[j.parent] = j
        self.root = roots[0]
        chain, link = [], self.root
        while link in by_parent:
            chain.append(by_parent[link])
            link = by_parent[link].child
            if len(chain) > len(joints):
                raise URDFSemanticsError("kinematic loop")
        if len(chain) != len(joints):
            raise URDFSemanticsError("joints not on the chain from the root")
        self.tip = link
        self.joints = chain
        self.moving = [j for j in chain if j.type in MOVING]
        self.num_dof = len(self.moving)
        self.names = [j.name for j in self.moving]
        self.limits = [(j.lower, j.upper) for j in self.moving]   # (None, None) for a continuous joint

    def fk(self, theta):
        """Pose (4x4) of the last link frame in the root link frame at joint vector theta."""
        theta = np.asarray(theta, float).reshape(-1)
        if len(theta) != self.num_dof:
            raise URDFSemanticsError("joint vector of length %d for %d moving joints" % (len(theta), self.num_dof))
        T = np.eye(4)
        k = 0
        for j in self.joints:
            T = T @ j.origin()
            if j.type in MOVING:
                T = T @ homog(rot_axis(j.axis, float(theta[k])), [0.0, 0.0, 0.0])
                k += 1
        return T

    def joint_frames_home(self):
        """Space-frame pose of every moving joint's frame at the zero configuration (4x4 each)."""
        out, T = [], np.eye(4)
        for j in self.joints:
            T = T @ j.origin()
            if j.type in MOVING:
                out.append(T.copy())
        return out


def rotation_angle(R):
    """Angle in [0, pi] of a rotation matrix, accurate near 0 and pi (atan2 of antisymmetric part and trace)."""
    s = 0.5 * math.sqrt((R[2, 1] - R[1, 2]) ** 2 + (R[0, 2] - R[2, 0]) ** 2 + (R[1, 0] - R[0, 1]) ** 2)
    c = 0.5 * (R[0, 0] + R[1, 1] + R[2, 2] - 1.0)
    return math.atan2(s, c)
