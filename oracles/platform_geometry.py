"""Independent Stewart-platform geometry and statics in plain NumPy (no import of the library under test).

A platform is described by two 3x6 tables of *plate-fixed* joint coordinates (bl in the bottom-plate frame, tl in the
top-plate frame) and the two plate poses Tb, Tt (4x4, plate frame -> space).  Everything below is elementary:

  to_space(T, P) / to_plate(T, P)      change a 3xN table of points between a plate frame and space
  leg_lengths(Tb, Tt, bl, tl)          l_i = || Tt t_i - Tb b_i ||
  leg_units(Tb, Tt, bl, tl)            (b_i, t_i in space, unit vectors n_i from bottom to top joint, l_i)
  inverse_jacobian(Tb, Tt, bl, tl)     6x6, row i = [ t_i x n_i , n_i ]  so that  dl/dt = invJ @ (w, v)  for the spatial
                                       twist (w, v) of the top plate, bottom plate at rest (angular part FIRST).
                                       The moment arm is taken from the TOP joint here; the library uses the bottom
                                       joint - the two agree because b_i, t_i lie on the same line along n_i.
  legs_wrench_on_top(..., tau)         sum_i tau_i (t_i x n_i, n_i): wrench (moment first, about the space origin) that
                                       legs pushing with force tau_i along +n_i exert on the top plate
  point_force_wrench(p, f)             (p x f, f)
  shaft_cog / motor_cog                points on the leg line at a distance d from the top / bottom joint
  rotz(a), spin_points(P, a)           rotation of plate-fixed points about the plate z axis
  nominal_layout(...)                  the documented joint layout of the parametric constructors (for the factory's
                                       height estimate and an informational layout residual only)
  richardson(f, h)                     (4 D(h) - D(2h)) / 3 central-difference derivative
"""
import numpy as np


def cross(a, b):
    a = np.asarray(a, float).reshape(3)
    b = np.asarray(b, float).reshape(3)
    return np.array([a[1] * b[2] - a[2] * b[1], a[2] * b[0] - a[0] * b[2], a[0] * b[1] - a[1] * b[0]])


def to_space(T, P):
    P = np.asarray(P, float)
    return T[:3, :3] @ P + T[:3, 3:4]


def to_plate(T, P):
    P = np.asarray(P, float)
    return T[:3, :3].T @ (P - T[:3, 3:4])


def leg_units(Tb, Tt, bl, tl):
    b = to_space(Tb, bl)
    t = to_space(Tt, tl)
    d = t - b
    L = np.sqrt((d * d).sum(axis=0))
    return b, t, d / L, L


def leg_lengths(Tb, Tt, bl, tl):
    return leg_units(Tb, Tt, bl, tl)[3]


def inverse_jacobian(Tb, Tt, bl, tl):
    b, t, n, L = leg_units(Tb, Tt, bl, tl)
    J = np.zeros((6, 6))
    for i in range(6):
        J[i, :3] = cross(t[:, i], n[:, i])
        J[i, 3:] = n[:, i]
    return J


def legs_wrench_on_top(Tb, Tt, bl, tl, tau):
    b, t, n, L = leg_units(Tb, Tt, bl, tl)
    tau = np.asarray(tau, float).reshape(6)
    W = np.zeros(6)
    for i in range(6):
        f = tau[i] * n[:, i]
        W[:3] += cross(t[:, i], f)
        W[3:] += f
    return W


def point_force_wrench(p, f):
    f = np.asarray(f, float).reshape(3)
    return np.concatenate([cross(p, f), f])


def shaft_cog(Tb, Tt, bl, tl, d):
    """Point at distance d from the top joint towards the bottom joint, per leg (3x6)."""
    b, t, n, L = leg_units(Tb, Tt, bl, tl)
    return t - d * n


def motor_cog(Tb, Tt, bl, tl, d):
    """Point at distance d from the bottom joint towards the top joint, per leg (3x6)."""
    b, t, n, L = leg_units(Tb, Tt, bl, tl)
    return b + d * n


def rotz(a):
    c, s = np.cos(a), np.sin(a)
    return np.array([[c, -s, 0.0], [s, c, 0.0], [0.0, 0.0, 1.0]])


def spin_points(P, a):
    return rotz(a) @ np.asarray(P, float)


def nominal_layout(r_bottom, r_top, spacing_bottom_deg, spacing_top_deg, z_bottom, z_top, hand):
    """Joint tables (3x6 each) the constructors document: three clusters 120 deg apart on the bottom circle, the top
    circle offset by 60 deg, the two joints of a cluster `spacing` degrees apart; hand = -1 swaps the two patterns.
    z_bottom / z_top are the plate-frame heights of the joint planes."""
    gb = np.deg2rad(spacing_bottom_deg) / 2.0
    gt = np.deg2rad(spacing_top_deg) / 2.0
    c, o = np.deg2rad(120.0), np.deg2rad(60.0)
    pat_a = lambda g: np.array([-g, g, c - g, c + g, 2 * c - g, 2 * c + g])
    pat_b = lambda g: np.array([-o + g, o - g, o + g, o + c - g, o + c + g, -o - g])
    if hand == -1:
        # the library swaps the angle patterns but keeps using the *bottom* half-gap for the 'a' pattern and the
        # *top* half-gap for the 'b' pattern (newSP); makeSP has one spacing, where this is immaterial
        ba, ta = pat_b(gt), pat_a(gb)
    else:
        ba, ta = pat_a(gb), pat_b(gt)
    bl = np.vstack([r_bottom * np.cos(ba), r_bottom * np.sin(ba), np.full(6, float(z_bottom))])
    tl = np.vstack([r_top * np.cos(ta), r_top * np.sin(ta), np.full(6, float(z_top))])
    return bl, tl


def richardson(f, h):
    """Derivative of the vector function f at 0 by Richardson-extrapolated central differences (steps h and 2h)."""
    d1 = (np.asarray(f(h), float) - np.asarray(f(-h), float)) / (2 * h)
    d2 = (np.asarray(f(2 * h), float) - np.asarray(f(-2 * h), float)) / (4 * h)
    return (4 * d1 - d2) / 3.0
