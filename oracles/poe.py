"""Product-of-exponentials reference for serial chains, in plain NumPy (independent of the library)."""
import numpy as np

from oracles import se3


def poe(S, th, upto=None):
    """exp([S1]th1) ... exp([Sk]thk), S is 6 x n with columns (w, v)."""
    T = np.eye(4)
    n = S.shape[1] if upto is None else upto
    for i in range(n):
        T = T @ se3.exp6(S[:, i] * th[i])
    return T


def fk(base, S_local, M_local, th):
    return base @ poe(S_local, th) @ M_local


def clamp(th, lo, hi):
    return np.minimum(np.maximum(np.asarray(th, float), lo), hi)


def jac_space(S, th):
    """Space Jacobian of the chain with space-frame screws S."""
    n = S.shape[1]
    J = np.zeros((6, n))
    T = np.eye(4)
    for i in range(n):
        J[:, i] = se3.adj(T) @ S[:, i]
        T = T @ se3.exp6(S[:, i] * th[i])
    return J


def space_screws(base, S_local):
    return se3.adj(base) @ S_local


def twist_of(T_from, T_to):
    """Space twist V with exp([V]) T_from = T_to."""
    return se3.log6(T_to @ se3.tinv(T_from))


def fd_jac_space(fkfun, th, h=1e-4):
    """Richardson-extrapolated central difference of FK expressed as a spatial twist: column i =
    vee( dT/dth_i T^-1 ).  Steps h and 2h (>= 1e-4 so the exponential's 1e-6 cut-off is never entered)."""
    th = np.asarray(th, float)
    n = len(th)
    T0 = fkfun(th)
    T0i = se3.tinv(T0)
    J = np.zeros((6, n))

    def d(step, i):
        e = np.zeros(n)
        e[i] = step
        Tp, Tm = fkfun(th + e), fkfun(th - e)
        return (se3.log6(Tp @ T0i) - se3.log6(Tm @ T0i)) / (2 * step)
    for i in range(n):
        d1, d2 = d(h, i), d(2 * h, i)
        J[:, i] = (4 * d1 - d2) / 3
    return J


def mod2pi_equal(a, b, tol=1e-9):
    a, b = np.asarray(a, float), np.asarray(b, float)
    if a.shape != b.shape:
        return False, float("inf")
    d = np.abs(np.angle(np.exp(1j * (a - b))))
    return bool(np.all(d <= tol)), float(d.max()) if d.size else 0.0
