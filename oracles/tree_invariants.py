"""Independent oracle for RRT*-style trees (C16): brute-force 6-D nearest neighbours, structural invariants of a
parent-linked tree, a replay of the recorded insertion order, and the path clauses.

Nothing here imports the library under test.  Nodes are plain data:
    pos    6-tuple (x, y, z, rx, ry, rz) exactly as stored in the node
    cost   float
    chain  [(pos, cost), ...] the node's parent, grand-parent, ... as reached through its own parent links
    closed True iff the chain ended in "no parent" within the step cap
`dist(p, q)` and `blocked(p, q)` are the distance function and collision detector the tree was built with.
Every function returns a list of findings {clause, observed, detail}; empty = fine.
"""
import math

import numpy as np

from oracles import se3

POS_EPS = 1e-12      # positions are stored verbatim: identity of nodes is identity of their six numbers
TIE_REL = 1e-9       # two neighbour distances closer than this (relative) count as tied


def same(p, q, eps=POS_EPS):
    if p == q:
        return True
    return all(abs(a - b) <= eps * max(1.0, abs(a), abs(b)) for a, b in zip(p, q))


def _rkey(p):
    return tuple(round(x, 11) + 0.0 for x in p)


def euclid3(p, q):
    return math.sqrt((p[0] - q[0]) ** 2 + (p[1] - q[1]) ** 2 + (p[2] - q[2]) ** 2)


def arc6(p, q):
    """sqrt(|translation|^2 + (relative rotation angle)^2): the norm of the relative pose's six-vector
    (translation, rotation vector), which is what the library's arc distance is defined as."""
    Rp, Rq = se3.rexp(p[3:6]), se3.rexp(q[3:6])
    return math.sqrt(euclid3(p, q) ** 2 + se3.rangle(Rp.T @ Rq) ** 2)


def d6(p, q):
    """the spatial index's metric: Euclidean distance between the stored six-vectors"""
    return math.sqrt(sum((a - b) ** 2 for a, b in zip(p, q)))


def knn6(points, q, k=1):
    """Brute force.  -> (must, may, dk): indices certainly among the k nearest (strictly closer than the k-th
    distance), indices acceptably among them (not farther than the k-th distance, ties included), k-th distance."""
    n = len(points)
    if n == 0:
        return set(), set(), None
    ds = [d6(p, q) for p in points]
    order = sorted(range(n), key=lambda i: ds[i])
    if k >= n:
        return set(range(n)), set(range(n)), ds[order[-1]]
    dk = ds[order[k - 1]]
    eps = TIE_REL * max(1.0, dk)
    must = {i for i in range(n) if ds[i] < dk - eps}
    may = {i for i in range(n) if ds[i] <= dk + eps}
    return must, may, dk


def _find(nodes, pos):
    for i, n in enumerate(nodes):
        if n["pos"] == pos:
            return i
    for i, n in enumerate(nodes):
        if same(n["pos"], pos):
            return i
    return None


def _index(points, pos):
    try:
        return points.index(pos)
    except ValueError:
        pass
    for i, p in enumerate(points):
        if same(p, pos):
            return i
    return None


def check_structure(nodes, start, iterations, count_reported, dist, blocked, tol=1e-9):
    out = []

    def bad(clause, observed, detail=None):
        out.append({"clause": clause, "observed": observed, "detail": detail})

    if iterations is not None and not (count_reported == iterations + 1 == len(nodes)):
        bad("count", {"count": count_reported, "iterations": iterations, "nodes_returned": len(nodes)})
    if len({_rkey(n["pos"]) for n in nodes}) != len(nodes):
        seen = set()
        for n in nodes:
            if _rkey(n["pos"]) in seen:
                bad("duplicate_node", {"pos": n["pos"]})
            seen.add(_rkey(n["pos"]))
    roots = [n for n in nodes if not n["chain"]]
    if len(roots) != 1 or not same(roots[0]["pos"], start):
        bad("root", {"parentless": [n["pos"] for n in roots], "start": start})
    for n in roots:
        if not (abs(n["cost"]) <= tol):
            bad("cost", {"node": n["pos"], "cost": n["cost"], "expected": 0.0}, "root cost")
    for n in nodes:
        ch = n["chain"]
        if not ch:
            continue
        if not n["closed"]:
            bad("parent_chain", {"node": n["pos"], "steps": len(ch)}, "parent links do not end (cycle)")
            continue
        seq = [n["pos"]] + [c[0] for c in ch]
        if len({_rkey(x) for x in seq}) != len(seq):
            bad("parent_chain", {"node": n["pos"], "chain": seq}, "a position repeats along the parent links")
        if not same(seq[-1], start):
            bad("parent_chain", {"node": n["pos"], "ends_at": seq[-1], "start": start}, "parent links do not reach the root")
        # every ancestor (a copy captured at insertion) must still describe the node of the tree at that position
        prev = None
        for depth, (ppos, pcost) in enumerate(ch):
            k = _find(nodes, ppos)
            if k is None:
                bad("parent_chain", {"node": n["pos"], "ancestor": ppos}, "ancestor is not a node of the tree")
                break
            t = nodes[k]
            tpar = t["chain"][0][0] if t["chain"] else None
            cpar = ch[depth + 1][0] if depth + 1 < len(ch) else None
            if not (abs(t["cost"] - pcost) <= tol) or (tpar is None) != (cpar is None) or (tpar is not None and not same(tpar, cpar)):
                bad("parent_copy", {"node": n["pos"], "ancestor": ppos, "copy_cost": pcost, "tree_cost": t["cost"],
                                    "copy_parent": cpar, "tree_parent": tpar},
                    "the ancestor reached through parent links disagrees with the tree's node at that position")
                break
        ppos, pcost = ch[0]
        # (a planner whose distance mode was switched between two growths: the metric in force when THIS node was placed)
        d = dist.for_child(n["pos"], ppos) if hasattr(dist, "for_child") else dist(n["pos"], ppos)
        if not abs(n["cost"] - (pcost + d)) <= tol:
            bad("cost", {"node": n["pos"], "parent": ppos, "cost": n["cost"], "parent_cost": pcost, "distance": d,
                         "residual": n["cost"] - (pcost + d)})
        if blocked(n["pos"], ppos):
            bad("edge_free", {"node": n["pos"], "parent": ppos})
    return out


class PhaseDist:
    """Distance oracle for a tree grown in several phases with different distance modes: `metrics[k]` is in force from
    draw number switch_at[k-1] on.  replay_insertions announces the attempt index; the cost clause asks for the metric
    that was in force when the child was placed."""

    def __init__(self, metrics, switch_at, events):
        self.metrics, self.switch_at, self.cur = list(metrics), list(switch_at), 0
        self.placed = {}
        nd = -1
        for e in events:
            if e[0] == "draw":
                nd += 1
            elif e[0] == "place":
                self.placed[_rkey(e[1])] = self._phase(nd)

    def _phase(self, draw_index):
        return sum(1 for s in self.switch_at if draw_index >= s)

    def attempt(self, ai):
        self.cur = self._phase(ai)

    def __call__(self, p, q):
        return self.metrics[self.cur](p, q)

    def for_child(self, child, parent):
        return self.metrics[self.placed.get(_rkey(child), 0)](child, parent)


def split_attempts(events):
    """events: ("draw", pos) | ("dist", a, b, value) | ("coll", a, b, result) | ("place", pos)
    -> [{"pos", "dist": [(a, b, v)], "coll": [(a, b, r)], "placed": bool}] one per draw, in order."""
    att, cur = [], None
    for e in events:
        if e[0] == "draw":
            cur = {"pos": e[1], "dist": [], "coll": [], "placed": False}
            att.append(cur)
        elif cur is None:
            raise ValueError("callback before the first draw: %r" % (e,))
        elif e[0] == "dist":
            cur["dist"].append(e[1:])
        elif e[0] == "coll":
            cur["coll"].append(e[1:])
        elif e[0] == "place":
            if not same(e[1], cur["pos"]):
                raise ValueError("placed %r which is not the current draw %r" % (e[1], cur["pos"]))
            cur["placed"] = True
    return att


def replay_insertions(start, events, nodes, dmin, dmax, k, dist, blocked, tol=1e-9, complete=True):
    """Re-derive, draw by draw, what an RRT* insertion may do, against the recorded callbacks and the final nodes.

    -> (findings, stats).  Clauses: nearest (the node the sample was measured against is not a 6-D nearest node),
    accept_range, rejected_acceptable_sample, neighbour_limit (the neighbours examined are not the k nearest),
    choose_parent (parent/cost is not the cheapest over {initial nearest} U {free examined}), distance_value
    (the supplied distance callback disagrees with the distance mode), insertion_log."""
    out = []
    stats = {"draws": 0, "accepted": 0, "rejected_range": 0, "rejected_blocked": 0, "nn_ties": 0, "parent_ties": 0,
             "reparented": 0, "blocked_cheaper_candidate": 0}

    def bad(clause, observed, detail=None):
        out.append({"clause": clause, "observed": observed, "detail": detail})

    tree = [tuple(start)]
    cost = [0.0]
    for ai, a in enumerate(split_attempts(events)):
        q = a["pos"]
        stats["draws"] += 1
        if hasattr(dist, "attempt"):
            dist.attempt(ai)
        for (x, y, v) in a["dist"]:
            if not abs(v - dist(x, y)) <= tol:
                bad("distance_value", {"a": x, "b": y, "callback": v, "oracle": dist(x, y)})
                break
        if not a["dist"]:
            if a["placed"]:
                bad("nearest", {"sample": q}, "sample placed without being measured against any node")
            continue
        x0, n0, v0 = a["dist"][0]
        if not same(x0, q):
            bad("insertion_log", {"sample": q, "measured": x0}, "first distance query is not about the sample")
            continue
        must, may, d1 = knn6(tree, q, 1)
        i0 = _index(tree, tuple(n0))
        if i0 is None or i0 not in may:
            bad("nearest", {"sample": q, "measured_against": n0, "tree": list(tree),
                            "nearest": [tree[i] for i in sorted(may)]},
                "the node the sample was measured against is not a nearest node of the tree at that time")
            if i0 is None:
                continue
        if len(may) > 1:
            stats["nn_ties"] += 1
        # the range decision is taken on the value the supplied distance function returned (checked above against
        # the oracle's value to `tol`), so a sample exactly AT a bound is decided exactly and never by rounding noise
        d0 = v0 if abs(v0 - dist(q, n0)) <= tol else dist(q, n0)
        in_range = dmin <= d0 <= dmax
        free0 = not blocked(q, n0)
        if not a["placed"]:
            if in_range and free0:
                bad("rejected_acceptable_sample", {"sample": q, "nearest": n0, "distance": d0, "min": dmin, "max": dmax})
            elif not in_range:
                stats["rejected_range"] += 1
            else:
                stats["rejected_blocked"] += 1
            continue
        stats["accepted"] += 1
        if not in_range:
            bad("accept_range", {"sample": q, "nearest": n0, "distance": d0, "min": dmin, "max": dmax})
        # neighbours examined = every node the sample was measured against during this insertion
        ex = []
        for (x, y, _) in a["dist"]:
            other = y if same(x, q) else x
            j = _index(tree, tuple(other))
            if j is None:
                bad("neighbour_limit", {"sample": q, "examined": other}, "examined something that is not a node of the tree")
            elif j not in ex:
                ex.append(j)
        kmust, kmay, dk = knn6(tree, q, k)
        if not (kmust <= set(ex) <= kmay and len(ex) >= min(k, len(tree))):
            bad("neighbour_limit", {"sample": q, "k": k, "examined": [tree[i] for i in ex],
                                    "k_nearest": [tree[i] for i in sorted(kmay)]})
        cands = {i0: cost[i0] + d0}
        for j in ex:
            if j == i0:
                continue
            if blocked(q, tree[j]):
                if cost[j] + dist(q, tree[j]) < cands[i0] - tol:
                    stats["blocked_cheaper_candidate"] += 1
                continue
            cands[j] = cost[j] + dist(q, tree[j])
        best = min(cands.values())
        winners = [j for j, c in cands.items() if c <= best + tol]
        if len(winners) > 1:
            stats["parent_ties"] += 1
        fin = _find(nodes, q)
        if fin is None:
            bad("insertion_log", {"sample": q}, "a placed sample is not among the nodes returned")
            tree.append(tuple(q))
            cost.append(best)
            continue
        f = nodes[fin]
        fpar = f["chain"][0][0] if f["chain"] else None
        jp = None if fpar is None else _index(tree, tuple(fpar))
        if jp is None or jp not in winners or not abs(f["cost"] - best) <= tol:
            bad("choose_parent", {"sample": q, "parent": fpar, "cost": f["cost"], "cheapest_cost": best,
                                  "cheapest_parents": [tree[j] for j in winners],
                                  "candidates": [[tree[j], c] for j, c in sorted(cands.items())]})
        if jp is not None and jp != i0:
            stats["reparented"] += 1
        tree.append(tuple(q))
        cost.append(best)
    if complete:
        for n in nodes:
            if _index(tree, tuple(n["pos"])) is None:
                bad("insertion_log", {"node": n["pos"]}, "a returned node was never placed")
    return out, stats


def check_path(path, nodes, start, goal):
    """path: list of 6-tuples.  start ... parent links in order ... goal; the last tree node is a 6-D nearest
    node to the goal."""
    out = []

    def bad(clause, observed, detail=None):
        out.append({"clause": clause, "observed": observed, "detail": detail})

    if len(path) < 2:
        bad("path_ends", {"path": path}, "a path needs at least the start pose and the goal")
        return out
    if not same(path[0], start):
        bad("path_ends", {"first": path[0], "start": start}, "path does not begin at the start pose")
    if not same(path[-1], goal):
        bad("path_ends", {"last": path[-1], "goal": goal}, "path does not end with the goal")
    body = path[:-1]
    for a, b in zip(body[:-1], body[1:]):
        k = _find(nodes, b)
        par = None if k is None or not nodes[k]["chain"] else nodes[k]["chain"][0][0]
        if par is None or not same(par, a):
            bad("path_links", {"from": a, "to": b, "parent_of_to": par}, "consecutive poses are not child and parent in the tree")
            break
    k = _find(nodes, body[-1])
    if k is None:
        bad("path_links", {"pose": body[-1]}, "the pose before the goal is not a node of the tree")
    else:
        _, may, _ = knn6([n["pos"] for n in nodes], goal, 1)
        if k not in may:
            bad("path_tail_nearest", {"tail": body[-1], "nearest_to_goal": [nodes[i]["pos"] for i in sorted(may)]})
    return out
