"""Byte / identity / memory-extent fingerprints of live object graphs (C14).

A fingerprint is taken by a *generic* traversal (``__dict__`` of library objects, lists, tuples, dicts, object-dtype
arrays) - not a hand-picked field list - so an array-valued field added to the library later is automatically part
of it.  Nothing here imports the library under test.

    nodes(obj)                 -> [Node]    every container object, ndarray and scalar leaf reachable from obj
    arrays(obj, ...)           -> [(path, ndarray)]
    take(objs)                 -> Fingerprint (keeps references to what it saw, so id() values stay meaningful)
    fp.diff(take(objs))        -> [ {path, what, ...} ]   what in bytes|identity|extent|layout|scalar|structure
    overlaps(arrs_a, arrs_b)   -> [(path_a, path_b)]      exact np.shares_memory on every pair
    scribble(arr, k)           -> bool      arr[...] = sentinel (a value the array does not contain)
    extent(arr)                -> (lo, hi)  byte addresses [lo, hi) touched by the array's elements
"""
import numpy as np

META_ATTRS = ("frame_applied", "position_applied")   # the frame/position metadata objects carried by screws/wrenches
MAX_DEPTH = 14
_SCALARS = (type(None), bool, int, float, complex, str, bytes, np.generic)


class Node:
    __slots__ = ("path", "kind", "obj")

    def __init__(self, path, kind, obj):
        self.path, self.kind, self.obj = path, kind, obj

    def __repr__(self):
        return "Node(%s,%s)" % (self.path, self.kind)


def extent(a):
    """[lo, hi) byte range covered by the elements of ndarray a (own computation; strides may be negative or 0)."""
    lo = hi = a.__array_interface__["data"][0]
    if a.size == 0:
        return (lo, lo)
    for n, s in zip(a.shape, a.strides):
        if s > 0:
            hi += (n - 1) * s
        else:
            lo += (n - 1) * s
    return (lo, hi + a.itemsize)


def nodes(obj, path="$", skip_meta=False, stop=None, _seen=None, _out=None, _depth=0):
    """Depth-first, deterministic.  `stop`: callable(o) -> True for objects that are neither reported nor entered.
    A shared sub-object is reported once per path through which it is reached (cycles are cut)."""
    out = [] if _out is None else _out
    seen = set() if _seen is None else _seen
    if _depth > MAX_DEPTH:
        out.append(Node(path, "deep", obj))
        return out
    if stop is not None and _depth > 0 and stop(obj):
        return out
    if isinstance(obj, np.ndarray):
        if obj.dtype == object:
            if id(obj) in seen:
                return out
            seen.add(id(obj))
            out.append(Node(path, "objarray", obj))
            for i, x in enumerate(obj.flat):
                nodes(x, "%s[%d]" % (path, i), skip_meta, stop, seen, out, _depth + 1)
            seen.discard(id(obj))
        else:
            out.append(Node(path, "array", obj))
    elif isinstance(obj, _SCALARS):
        out.append(Node(path, "scalar", obj))
    elif isinstance(obj, (list, tuple)):
        if id(obj) in seen:
            return out
        seen.add(id(obj))
        out.append(Node(path, "list" if isinstance(obj, list) else "tuple", obj))
        for i, x in enumerate(obj):
            nodes(x, "%s[%d]" % (path, i), skip_meta, stop, seen, out, _depth + 1)
        seen.discard(id(obj))
    elif isinstance(obj, dict):
        if id(obj) in seen:
            return out
        seen.add(id(obj))
        out.append(Node(path, "dict", obj))
        for k in sorted(obj.keys(), key=repr):
            nodes(obj[k], "%s{%r}" % (path, k), skip_meta, stop, seen, out, _depth + 1)
        seen.discard(id(obj))
    elif isinstance(obj, (set, frozenset)):
        out.append(Node(path, "scalar", repr(sorted(obj, key=repr))))
    elif hasattr(obj, "__dict__") and not callable(obj) and not isinstance(obj, type):
        if id(obj) in seen:
            return out
        seen.add(id(obj))
        out.append(Node(path, "object", obj))
        d = vars(obj)
        for k in sorted(d.keys()):
            if skip_meta and k in META_ATTRS:
                continue
            nodes(d[k], "%s.%s" % (path, k), skip_meta, stop, seen, out, _depth + 1)
        seen.discard(id(obj))
    else:
        out.append(Node(path, "opaque", obj))
    return out


def arrays(obj, path="$", skip_meta=False, stop=None):
    return [(n.path, n.obj) for n in nodes(obj, path, skip_meta, stop) if n.kind == "array"]


def _scalar_repr(x):
    if isinstance(x, (float, np.floating)):
        return "f:" + float(x).hex()
    return "%s:%r" % (type(x).__name__, x)


class Fingerprint:
    """Snapshot of a list of root objects.  Holds references to every node, so ids cannot be recycled while it lives."""

    def __init__(self, roots, names=None):
        self.roots = list(roots)
        self.names = list(names) if names else ["op%d" % i for i in range(len(self.roots))]
        self.rec = {}
        self.order = []
        self._keep = []
        for r, nm in zip(self.roots, self.names):
            for n in nodes(r, nm):
                self._keep.append(n.obj)
                if n.kind == "array":
                    a = n.obj
                    v = ("array", id(a), extent(a), a.shape, a.strides, a.dtype.str, a.tobytes(), bool(a.flags.writeable))
                elif n.kind == "scalar":
                    v = ("scalar", _scalar_repr(n.obj))
                elif n.kind in ("list", "tuple", "dict", "objarray"):
                    v = (n.kind, id(n.obj), len(n.obj) if n.kind != "objarray" else n.obj.shape)
                elif n.kind == "object":
                    v = ("object", id(n.obj), type(n.obj).__name__, tuple(sorted(vars(n.obj).keys())))
                else:
                    v = (n.kind, id(n.obj), type(n.obj).__name__)
                if n.path not in self.rec:
                    self.order.append(n.path)
                self.rec[n.path] = v

    def n_arrays(self):
        return sum(1 for v in self.rec.values() if v[0] == "array")

    def array_items(self):
        """[(path, ndarray)] of the arrays seen when the snapshot was taken (the objects themselves)."""
        out = []
        for r, nm in zip(self.roots, self.names):
            out += arrays(r, nm)
        return out

    def diff(self, other):
        """Differences self (before) -> other (after).  Empty list == unchanged in bytes, identity, extent, layout,
        scalars and structure."""
        out = []
        for p in self.order:
            a = self.rec[p]
            b = other.rec.get(p)
            if b is None:
                out.append({"path": p, "what": "structure", "detail": "node disappeared (%s)" % a[0]})
                continue
            if a[0] != b[0]:
                out.append({"path": p, "what": "structure", "detail": "%s became %s" % (a[0], b[0])})
                continue
            if a[0] == "array":
                if a[6] != b[6] or a[3] != b[3] or a[5] != b[5]:
                    d = {"path": p, "what": "bytes"}
                    try:
                        x = np.frombuffer(a[6], dtype=np.dtype(a[5])).reshape(a[3])
                        y = np.frombuffer(b[6], dtype=np.dtype(b[5])).reshape(b[3])
                        d["before"] = x.ravel()[:8].tolist()
                        d["after"] = y.ravel()[:8].tolist()
                    except Exception:
                        pass
                    out.append(d)
                if a[1] != b[1]:
                    out.append({"path": p, "what": "identity", "detail": "attribute rebound to another ndarray"})
                elif a[2] != b[2]:
                    out.append({"path": p, "what": "extent", "detail": "%s -> %s" % (a[2], b[2])})
                elif a[4] != b[4] or a[7] != b[7]:
                    out.append({"path": p, "what": "layout", "detail": "strides/writeable changed"})
            elif a[0] == "scalar":
                if a[1] != b[1]:
                    out.append({"path": p, "what": "scalar", "before": a[1], "after": b[1]})
            else:
                if a[1] != b[1]:
                    out.append({"path": p, "what": "identity", "detail": "%s replaced by another object" % a[0]})
                elif a[2:] != b[2:]:
                    out.append({"path": p, "what": "structure", "detail": "%r -> %r" % (a[2:], b[2:])})
        for p in other.order:
            if p not in self.rec:
                out.append({"path": p, "what": "structure", "detail": "node appeared (%s)" % other.rec[p][0]})
        return out


def take(roots, names=None):
    return Fingerprint(roots, names)


def overlaps(items_a, items_b):
    """Exact: every pair (a, b) with np.shares_memory(a, b).  items: [(path, ndarray)]."""
    out = []
    for pa, a in items_a:
        if a.size == 0:
            continue
        ea = extent(a)
        for pb, b in items_b:
            if b.size == 0:
                continue
            eb = extent(b)
            if ea[1] <= eb[0] or eb[1] <= ea[0]:
                continue            # disjoint byte ranges cannot share an element
            if np.shares_memory(a, b):
                out.append((pa, pb))
    return out


def sentinel(a, k=0):
    """A value of a's dtype that a does not currently contain."""
    kind = a.dtype.kind
    if kind == "b":
        return None
    base = 7.5 + k if kind in "fc" else 75 + k
    vals = set(np.asarray(a).ravel().tolist()) if a.size < 100000 else set()
    while base in vals:
        base += 1
    return base


def scribble(a, k=0):
    """In-place overwrite of every element of ndarray a.  Returns True when something was written."""
    if not isinstance(a, np.ndarray) or a.size == 0 or not a.flags.writeable:
        return False
    if a.dtype.kind == "b":
        a[...] = ~a
        return True
    if a.dtype.kind not in "fciu":
        return False
    a[...] = sentinel(a, k)
    return True
