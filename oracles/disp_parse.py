"""Independent reader of the text that `basic_robotics.utilities.disp.disp` renders (oracle side of C20).

Nothing here imports the library.  The module knows only the *published shape* of a rendering:

* default ("table") mode: every row of numbers is one line that opens with one of the box characters  ║ ╔ ╚ ,
  closes with one of  ║ ╗ ╝  and holds, in between, comma separated fixed-point fields (`{:nd+6.ndf}`), e.g.
  `║     1.000,   -2.500 ║`.  Every other line (title bars `╔═══ T BEGIN ═══╗`, `DIM 3:` captions, end bars) is
  decoration and carries no element.  A 1-D array displayed with a non-default title gets the prefix `title: ` in
  front of its single row; an object without a shape (0-d arrays, scalars) is `str(obj)` with the same prefix.
* LaTeX mode (2-D only): the rows are the lines between `\\midrule` and `\\bottomrule`; cells are separated by
  ` & ` and the row ends with `\\\\`.

`compare` implements the faithfulness clause exactly as the property states it: the fields read back, in row-major
order and in full, equal `round(x, nd)` within half a unit of the last requested place, and (row fields only) do
not show more non-zero decimals than requested.  Arithmetic is done in `decimal` so the half-unit bound is exact and not itself rounded.
"""
import re
from decimal import Decimal, InvalidOperation

ROW_OPEN = "║╔╚"
ROW_CLOSE = "║╗╝"
DEFAULT_TITLE = "MATRIX"

# one numeric field, surrounding blanks already stripped
_NUM = re.compile(r"^[-+]?(?:(?:\d+(?:\.\d*)?|\.\d+)(?:[eE][-+]?\d+)?|inf|nan)$")


def is_number(tok):
    return bool(_NUM.match(tok))


def _strip_prefix(line, title):
    if title is not None and title != DEFAULT_TITLE and line.startswith(title + ": "):
        return line[len(title) + 2:]
    return line


def table_rows(s, title=None):
    """Rows of numeric fields of a default-mode rendering -> list of lists of field strings (blanks stripped).

    `title`: the title the caller passed to disp; only used to take the `title: ` prefix off the FIRST line.
    A row line with nothing between its delimiters is an empty row ([]), as rendered for a zero last extent.
    Lines that are delimited like rows but hold anything that is not a number are decoration, not rows.
    """
    rows = []
    for k, ln in enumerate(s.split("\n")):
        if k == 0:
            ln = _strip_prefix(ln, title)
        if len(ln) < 2 or ln[0] not in ROW_OPEN or ln[-1] not in ROW_CLOSE:
            continue
        body = ln[1:-1]
        if body.strip(" ") == "":
            rows.append([])
            continue
        cells = [c.strip(" ") for c in body.split(",")]
        if all(is_number(c) for c in cells):
            rows.append(cells)
    return rows


def latex_rows(s):
    """Rows of a LaTeX-mode rendering -> list of lists of cell strings, or None when the frame is not there."""
    lines = s.split("\n")
    try:
        a = lines.index("\\midrule")
        b = lines.index("\\bottomrule", a + 1)
    except ValueError:
        return None
    rows = []
    for ln in lines[a + 1:b]:
        if not ln.endswith("\\\\"):
            return None
        body = ln[:-2]
        rows.append([c.strip(" ") for c in body.split(" & ")] if body.strip(" ") != "" else [])
    return rows


def scalar_token(s, title=None):
    """The single token of a shapeless rendering (`[title: ]str(obj)`)."""
    return _strip_prefix(s, title).strip()


def to_decimal(tok):
    """Field text -> Decimal; the words True/False (str() of a boolean) count as 1/0.  None when not a number."""
    if tok == "True":
        return Decimal(1)
    if tok == "False":
        return Decimal(0)
    if not is_number(tok):
        return None
    try:
        return Decimal(tok)
    except InvalidOperation:
        return None


def decimals_shown(tok, significant=False):
    """Number of decimal places a field text shows (0 for integers, inf/nan, True/False).
    significant=True does not count trailing zeros ("1.0" -> 0, "2.50" -> 1): what matters for 'not rounded'."""
    d = to_decimal(tok)
    if d is None or not d.is_finite() or tok in ("True", "False"):
        return 0
    if significant:
        d = d.normalize()
    return max(0, -d.as_tuple().exponent)


def want_decimal(x, nd):
    """round(x, nd) as an exact Decimal.  x: Python int, bool or float (finite)."""
    if isinstance(x, (bool, int)):
        return Decimal(int(x))
    return Decimal(repr(round(float(x), nd)))


def compare(tokens, values, nd, check_decimals=True):
    """tokens: field strings in the order they are rendered; values: the elements given, row-major.
    check_decimals=False for shapeless renderings (str(obj) is not a formatted row field).
    Returns None when faithful, else a dict describing the FIRST discrepancy:
      kind = count   : not as many fields as elements
             unparsed: a field is not a number
             value   : |field - round(x, nd)| > 0.5 * 10**-nd
             decimals: the field shows more than nd decimals (trailing zeros not counted)
    """
    if len(tokens) != len(values):
        return {"kind": "count", "shown": len(tokens), "given": len(values)}
    half = Decimal(5).scaleb(-nd - 1)
    for k, (t, v) in enumerate(zip(tokens, values)):
        d = to_decimal(t)
        if d is None or not d.is_finite():
            return {"kind": "unparsed", "index": k, "shown": t, "given": v}
        w = want_decimal(v, nd)
        if abs(d - w) > half:
            return {"kind": "value", "index": k, "shown": t, "given": v, "rounded": str(w), "half_unit": str(half)}
        if check_decimals and decimals_shown(t, significant=True) > nd:
            return {"kind": "decimals", "index": k, "shown": t, "given": v, "nd": nd}
    return None


def flatten(rows):
    return [t for r in rows for t in r]


def layout_ok(rows, shape):
    """Row layout of an array rendering with no zero extent: prod(shape[:-1]) rows of shape[-1] fields."""
    n = 1
    for e in shape[:-1]:
        n *= e
    return len(rows) == n and all(len(r) == shape[-1] for r in rows)
