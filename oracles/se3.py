"""Independent SE(3) algebra in plain NumPy (no import of the library under test)."""
import numpy as np

PI = np.pi


def skew(w):
    w = np.asarray(w, float).reshape(3)
    return np.array([[0, -w[2], w[1]], [w[2], 0, -w[0]], [-w[1], w[0], 0]])


def vee(W):
    return np.array([W[2, 1], W[0, 2], W[1, 0]])


def rexp(w):
    """Rodrigues, accurate for all angles (series near 0)."""
    w = np.asarray(w, float).reshape(3)
    th = np.linalg.norm(w)
    K = skew(w)
    if th < 1e-4:
        a = 1 - th * th / 6 + th ** 4 / 120
        b = 0.5 - th * th / 24 + th ** 4 / 720
    else:
        a = np.sin(th) / th
        b = (1 - np.cos(th)) / (th * th)
    return np.eye(3) + a * K + b * (K @ K)


def rangle(R):
    """Rotation angle in [0, pi], accurate near 0 and pi (atan2 of the antisymmetric part and the trace)."""
    s = 0.5 * np.linalg.norm([R[2, 1] - R[1, 2], R[0, 2] - R[2, 0], R[1, 0] - R[0, 1]])
    c = 0.5 * (np.trace(R) - 1.0)
    return float(np.arctan2(s, c))


def rlog(R):
    """Accurate rotation-vector logarithm for angles in [0, pi]."""
    R = np.asarray(R, float)
    th = rangle(R)
    if th < 1e-7:
        return vee(0.5 * (R - R.T))
    if PI - th > 1e-3:
        return vee(R - R.T) * th / (2 * np.sin(th))
    # near pi: axis from the symmetric part
    B = 0.5 * (R + R.T)
    A = (B - np.cos(th) * np.eye(3)) / (1 - np.cos(th))  # = n n^T
    i = int(np.argmax(np.diag(A)))
    n = A[:, i] / np.sqrt(A[i, i])
    v = vee(R - R.T)
    if np.dot(v, n) < 0:
        n = -n
    return n * th


def is_so3(R, tol):
    R = np.asarray(R, float)
    return (R.shape == (3, 3) and np.all(np.isfinite(R)) and np.abs(R @ R.T - np.eye(3)).max() <= tol
            and abs(np.linalg.det(R) - 1) <= tol)


def T_from(w, p):
    T = np.eye(4)
    T[:3, :3] = rexp(w)
    T[:3, 3] = np.asarray(p, float).reshape(3)
    return T


def T_from_taa(taa):
    taa = np.asarray(taa, float).reshape(6)
    return T_from(taa[3:6], taa[0:3])


def tinv(T):
    R, p = T[:3, :3], T[:3, 3]
    out = np.eye(4)
    out[:3, :3] = R.T
    out[:3, 3] = -R.T @ p
    return out


def adj(T):
    R, p = T[:3, :3], T[:3, 3]
    A = np.zeros((6, 6))
    A[:3, :3] = R
    A[3:, 3:] = R
    A[3:, :3] = skew(p) @ R
    return A


def hat6(V):
    V = np.asarray(V, float).reshape(6)
    M = np.zeros((4, 4))
    M[:3, :3] = skew(V[:3])
    M[:3, 3] = V[3:]
    return M


def exp6(V):
    """exp of twist V=(w,v) (MR ordering: angular first)."""
    V = np.asarray(V, float).reshape(6)
    w, v = V[:3], V[3:]
    th = np.linalg.norm(w)
    K = skew(w)
    if th < 1e-4:
        b = 0.5 - th * th / 24 + th ** 4 / 720
        c = 1.0 / 6 - th * th / 120 + th ** 4 / 5040
    else:
        b = (1 - np.cos(th)) / th ** 2
        c = (th - np.sin(th)) / th ** 3
    G = np.eye(3) + b * K + c * (K @ K)
    T = np.eye(4)
    T[:3, :3] = rexp(w)
    T[:3, 3] = G @ v
    return T


def log6(T):
    """Twist (w,v) with exp6 = T, rotation angle < pi."""
    R, p = T[:3, :3], T[:3, 3]
    w = rlog(R)
    th = np.linalg.norm(w)
    K = skew(w)
    if th < 1e-4:
        Ginv = np.eye(3) - 0.5 * K + (1.0 / 12) * (K @ K)
    else:
        Ginv = np.eye(3) - 0.5 * K + (1 / th ** 2 - (1 + np.cos(th)) / (2 * th * np.sin(th))) * (K @ K) if PI - th > 1e-6 \
            else np.eye(3) - 0.5 * K + (1 / th ** 2) * (K @ K)
    return np.concatenate([w, Ginv @ p])


def pose_err(Ta, Tb):
    """(rotation angle between, translation distance)."""
    return rangle(Ta[:3, :3].T @ Tb[:3, :3]), float(np.linalg.norm(Ta[:3, 3] - Tb[:3, 3]))


def rot_xyz(a, b, c):
    """Rx(a) @ Ry(b) @ Rz(c)."""
    return rexp([a, 0, 0]) @ rexp([0, b, 0]) @ rexp([0, 0, c])


def unit(v):
    v = np.asarray(v, float)
    return v / np.linalg.norm(v)
