"""Independent oracles for the geometric helper relations of C18 (plain NumPy, nothing of the library under test).

Conventions: a pose is a six-vector (x, y, z, rx, ry, rz) - position and rotation vector - or the 4x4 matrix made from
it with oracles.se3.  Twists use the Modern-Robotics ordering (angular part first).
"""
import math

import numpy as np

from oracles import se3

TWO_PI = 2.0 * math.pi


# ---------------------------------------------------------------- frames, planes, reflection
def local_coords(T, p):
    """Coordinates of world point p in frame T."""
    T = np.asarray(T, float)
    return T[:3, :3].T @ (np.asarray(p, float).reshape(3) - T[:3, 3])


def from_local(T, q):
    T = np.asarray(T, float)
    return T[:3, 3] + T[:3, :3] @ np.asarray(q, float).reshape(3)


def reflect_across_frame_xy(T, p):
    """Mirror image of world point p in the local XY plane of frame T (Householder about the frame's z axis,
    offset by the frame's origin - the plane does NOT have to contain the world origin)."""
    T = np.asarray(T, float)
    n = T[:3, 2]
    p = np.asarray(p, float).reshape(3)
    return p - 2.0 * n * float(n @ (p - T[:3, 3]))


def plane_offset(T):
    """Signed distance of the world origin's plane offset: n . o for the local XY plane of T (0 = through origin)."""
    T = np.asarray(T, float)
    return float(T[:3, 2] @ T[:3, 3])


def plane_point_distance(a, b, c, d, p):
    """Signed distance of p from the plane  a x + b y + c z = d  (the convention of the function under test:
    'a*x3 + b*y3 + c*z3 equals d')."""
    n = np.array([a, b, c], float)
    return float((n @ np.asarray(p, float).reshape(3) - d) / np.linalg.norm(n))


def collinearity(p1, p2, p3):
    """sin of the angle at p1 (0 = collinear); 0 if two points coincide."""
    u = np.asarray(p2, float) - np.asarray(p1, float)
    v = np.asarray(p3, float) - np.asarray(p1, float)
    nu, nv = np.linalg.norm(u), np.linalg.norm(v)
    if nu == 0 or nv == 0:
        return 0.0
    return float(np.linalg.norm(np.cross(u, v)) / (nu * nv))


# ---------------------------------------------------------------- rotations
def so3_defect(R):
    """max(|R R^T - I|, |det R - 1|); inf for non-finite or wrongly shaped input."""
    R = np.asarray(R, float)
    if R.shape != (3, 3) or not np.all(np.isfinite(R)):
        return float("inf")
    return float(max(np.abs(R @ R.T - np.eye(3)).max(), abs(np.linalg.det(R) - 1.0)))


def geodesic_mid_rotation(R1, R2):
    """R_mid with R_mid R1^T = (R2 R1^T)^(1/2): half of the relative rotation's logarithm, applied on the left."""
    R1 = np.asarray(R1, float)
    R2 = np.asarray(R2, float)
    w = se3.rlog(R2 @ R1.T)
    return se3.rexp(0.5 * w) @ R1


def rel_pose_vector(Ta, Tb):
    """Six-vector of Tb expressed in frame Ta: (R_a^T (p_b - p_a), log(R_a^T R_b))."""
    Ta = np.asarray(Ta, float)
    Tb = np.asarray(Tb, float)
    Ra = Ta[:3, :3]
    return np.concatenate([Ra.T @ (Tb[:3, 3] - Ta[:3, 3]), se3.rlog(Ra.T @ Tb[:3, :3])])


def arc_norm(Ta, Tb):
    """Euclidean norm of the relative pose six-vector."""
    return float(np.linalg.norm(rel_pose_vector(Ta, Tb)))


def look_direction(pa, pb):
    d = np.asarray(pb, float).reshape(3) - np.asarray(pa, float).reshape(3)
    return d / np.linalg.norm(d)


# ---------------------------------------------------------------- angles
def wrap_residual(out, inp):
    """Distance of (out - inp) from the nearest integer multiple of 2*pi (elementwise, max)."""
    d = np.asarray(out, float) - np.asarray(inp, float)
    k = np.round(d / TWO_PI)
    r = np.abs(d - k * TWO_PI)
    return float(np.max(r)) if r.size else 0.0


# ---------------------------------------------------------------- Jacobians
def space_jacobian(screws, theta):
    """Analytic space Jacobian of the product of exponentials: column i = Ad(exp(S_0 th_0) ... exp(S_{i-1} th_{i-1})) S_i."""
    S = np.asarray(screws, float)
    th = np.asarray(theta, float).reshape(-1)
    n = th.size
    J = np.zeros((6, n))
    T = np.eye(4)
    for i in range(n):
        J[:, i] = se3.adj(T) @ S[:, i]
        T = T @ se3.exp6(S[:, i] * th[i])
    return J


def poe(screws, theta):
    """exp(S_0 th_0) ... exp(S_{n-1} th_{n-1})."""
    S = np.asarray(screws, float)
    T = np.eye(4)
    for i, t in enumerate(np.asarray(theta, float).reshape(-1)):
        T = T @ se3.exp6(S[:, i] * t)
    return T


def screw_from_axis(w, q, h=0.0):
    """Unit screw (w, v) of a revolute (pitch h) joint with axis direction w through point q."""
    w = se3.unit(w)
    q = np.asarray(q, float)
    return np.concatenate([w, -np.cross(w, q) + h * w])


# test maps R^n -> R^m with analytic Jacobians.  `m3` bounds every third partial derivative on the box |x_i| <= 1.6,
# used to decide for which central-difference steps the truncation error delta^2/6 * m3 is below the tolerance.
def _quad(x):
    return np.array([x[0] ** 2 + x[1] ** 2, x[0] * x[1] - 3.0 * x[1] ** 2, 2.0 * x[0] - x[1] + 1.0])


def _quad_J(x):
    return np.array([[2 * x[0], 2 * x[1]], [x[1], x[0] - 6.0 * x[1]], [2.0, -1.0]])


def _cubic(x):
    return np.array([x[0] ** 2 + x[1] ** 2, x[0] ** 3 * x[1] ** 3])


def _cubic_J(x):
    return np.array([[2 * x[0], 2 * x[1]], [3 * x[0] ** 2 * x[1] ** 3, 3 * x[0] ** 3 * x[1] ** 2]])


def _trig(x):
    return np.array([np.sin(x[0]) * np.cos(x[1]), x[2] * np.cos(x[0]) + x[1]])


def _trig_J(x):
    return np.array([[np.cos(x[0]) * np.cos(x[1]), -np.sin(x[0]) * np.sin(x[1]), 0.0],
                     [-x[2] * np.sin(x[0]), 1.0, np.cos(x[0])]])


def _line(x):
    return np.array([x[0] ** 2, np.sin(2.0 * x[0]), 3.0 * x[0]])


def _line_J(x):
    return np.array([[2 * x[0]], [2.0 * np.cos(2.0 * x[0])], [3.0]])


def _scal(x):
    return np.array([x[0] * x[1] + np.sin(x[2])])


def _scal_J(x):
    return np.array([[x[1], x[0], np.cos(x[2])]])


MAPS = {
    "quad_2to3": {"f": _quad, "J": _quad_J, "n": 2, "m": 3, "m3": 0.0},
    "cubic_2to2": {"f": _cubic, "J": _cubic_J, "n": 2, "m": 2, "m3": 6.0 * 1.6 ** 3},
    "trig_3to2": {"f": _trig, "J": _trig_J, "n": 3, "m": 2, "m3": 1.6},
    "line_1to3": {"f": _line, "J": _line_J, "n": 1, "m": 3, "m3": 8.0},
    "scal_3to1": {"f": _scal, "J": _scal_J, "n": 3, "m": 1, "m3": 1.0},
}


def central_truncation_bound(name, delta):
    """Upper bound of |central difference - derivative| = delta^2/6 * sup|f'''| on the box."""
    return delta * delta / 6.0 * MAPS[name]["m3"]
