"""Independent rigid-body dynamics reference for open chains in plain NumPy (no import of the library under test).

Conventions (those of Modern Robotics ch. 8, derived from the docstrings of the vendored reference):
  * Slist  6 x n, columns (w, v): joint screws in the space frame at the home pose.
  * Mlist  n+1 homogeneous matrices: link frame {i} relative to {i-1} at home; the last one places the
    end-effector frame {n+1} in link frame {n}.
  * Glist  n spatial inertias (6x6, angular block first) expressed in the link frames.
  * Ftip   wrench (moment, force) applied BY the end-effector to the environment, expressed in {n+1}; the joint
    torques needed to create it are Jb_tip^T Ftip with Jb_tip the body Jacobian of frame {n+1}.
  * g      gravitational acceleration in the space frame; potential energy P(q) = sum_i m_i (-g) . p_cm,i(q).

Nothing here is a recursion: every quantity comes from product-of-exponentials link poses, link Jacobians
J_i (body Jacobian of link frame {i}, zero columns after joint i) and M = sum_i J_i^T G_i J_i.  The velocity-product
term is obtained from the Lagrangian, c = Mdot qd - 1/2 grad_q(qd^T M qd), by Richardson-extrapolated central
differences of that closed-form M (steps h, 2h >= 1e-4).
"""
import numpy as np

from oracles import poe, se3


def home_frames(Mlist):
    """M_0i for i = 1..n+1 (cumulative products)."""
    out, T = [], np.eye(4)
    for M in Mlist:
        T = T @ np.asarray(M, float)
        out.append(T.copy())
    return out


def link_frames(Mlist, Slist, q):
    """T_0i(q) for the n link frames and the end-effector frame (n+1 matrices)."""
    S = np.asarray(Slist, float)
    n = S.shape[1]
    H = home_frames(Mlist)
    out, E = [], np.eye(4)
    for i in range(n):
        E = E @ se3.exp6(S[:, i] * q[i])
        out.append(E @ H[i])
    out.append(E @ H[n])
    return out


def link_jacobians(Mlist, Slist, q):
    """[J_1..J_n, J_tip]: body Jacobians (6 x n) of the link frames and of the end-effector frame."""
    S = np.asarray(Slist, float)
    n = S.shape[1]
    Js = poe.jac_space(S, q)
    T = link_frames(Mlist, S, q)
    out = []
    for i in range(n + 1):
        J = se3.adj(se3.tinv(T[i])) @ Js
        if i < n:
            J[:, i + 1:] = 0.0
        out.append(J)
    return out


def mass_matrix(Mlist, Glist, Slist, q):
    J = link_jacobians(Mlist, Slist, q)
    n = len(q)
    M = np.zeros((n, n))
    for i in range(n):
        M += J[i].T @ np.asarray(Glist[i], float) @ J[i]
    return M


def tip_torque(Mlist, Slist, q, Ftip):
    """Joint torques that create the end-effector wrench Ftip (expressed in {n+1})."""
    return link_jacobians(Mlist, Slist, q)[-1].T @ np.asarray(Ftip, float).reshape(6)


def mass_and_com(G):
    """(m, c) of a spatial inertia [[Ic - m[c][c], m[c]], [-m[c], m 1]] expressed in a frame whose origin is at -c
    from the centre of mass, i.e. c = position of the centre of mass in the link frame."""
    G = np.asarray(G, float)
    m = float(np.trace(G[3:, 3:]) / 3.0)
    c = se3.vee(0.5 * (G[:3, 3:] - G[:3, 3:].T)) / m
    return m, c


def spatial_inertia(Ic, m, c=(0, 0, 0)):
    """Spatial inertia of a body with rotational inertia Ic about its centre of mass (axes of the link frame),
    mass m and centre of mass at c in the link frame."""
    C = se3.skew(c)
    G = np.zeros((6, 6))
    G[:3, :3] = np.asarray(Ic, float) + m * (C @ C.T)
    G[:3, 3:] = m * C
    G[3:, :3] = m * C.T
    G[3:, 3:] = m * np.eye(3)
    return G


def mass_moment(Mlist, Glist, Slist, q):
    """sum_i m_i p_cm,i(q)  (3-vector); potential energy is -g . mass_moment."""
    T = link_frames(Mlist, Slist, q)
    s = np.zeros(3)
    for i in range(len(q)):
        m, c = mass_and_com(Glist[i])
        s += m * (T[i][:3, :3] @ c + T[i][:3, 3])
    return s


def potential(Mlist, Glist, Slist, q, g):
    return float(-np.asarray(g, float).reshape(3) @ mass_moment(Mlist, Glist, Slist, q))


def kinetic(Mlist, Glist, Slist, q, qd):
    qd = np.asarray(qd, float)
    return 0.5 * float(qd @ mass_matrix(Mlist, Glist, Slist, q) @ qd)


def richardson(f, x, d, h=1e-4):
    """Directional derivative of f at x along d: central differences with steps h and 2h, extrapolated (O(h^4))."""
    x = np.asarray(x, float)
    d = np.asarray(d, float)
    d1 = (f(x + h * d) - f(x - h * d)) / (2 * h)
    d2 = (f(x + 2 * h * d) - f(x - 2 * h * d)) / (4 * h)
    return (4 * d1 - d2) / 3.0


def gradient(f, x, h=1e-4):
    x = np.asarray(x, float)
    n = len(x)
    cols = []
    for k in range(n):
        e = np.zeros(n)
        e[k] = 1.0
        cols.append(richardson(f, x, e, h))
    return np.array(cols)


def mass_moment_jacobian(Mlist, Glist, Slist, q, h=1e-4):
    """D[k,:] = d/dq_k sum_i m_i p_cm,i  (n x 3), by Richardson differences."""
    return gradient(lambda x: mass_moment(Mlist, Glist, Slist, x), q, h)


def gravity_torque(Mlist, Glist, Slist, q, g, h=1e-4, D=None):
    """grad_q P(q) with P = -g . sum m_i p_cm,i: the torques that hold the chain against gravity."""
    if D is None:
        D = mass_moment_jacobian(Mlist, Glist, Slist, q, h)
    return -D @ np.asarray(g, float).reshape(3)


def mdot_along(Mfun, q, qd, h=1e-4):
    """d/dt M(q(t)) for qdot = qd, by Richardson differences of Mfun along qd.  The step is scaled so that the
    displacement in joint space is h and 2h whatever the magnitude of qd."""
    qd = np.asarray(qd, float)
    s = float(np.abs(qd).max())
    if s == 0.0:
        M = Mfun(np.asarray(q, float))
        return np.zeros_like(M)
    return richardson(Mfun, q, qd / s, h) * s


def coriolis(Mlist, Glist, Slist, q, qd, h=1e-4):
    """c(q,qd) = Mdot qd - 1/2 grad_q (qd^T M qd) from the closed-form M of this module."""
    qd = np.asarray(qd, float)
    n = len(qd)
    s = float(np.abs(qd).max())
    if s == 0.0:
        return np.zeros(n)
    u = qd / s
    Mf = lambda x: mass_matrix(Mlist, Glist, Slist, x)
    Md = richardson(Mf, q, u, h)
    gradT = gradient(lambda x: float(u @ Mf(x) @ u), q, h)
    return (Md @ u - 0.5 * gradT) * s * s


def inverse_dynamics(Mlist, Glist, Slist, q, qd, qdd, g, Ftip, h=1e-4):
    """tau = M qdd + c + grad P + Jb_tip^T Ftip, each term from this module (returns the four terms too)."""
    tM = mass_matrix(Mlist, Glist, Slist, q) @ np.asarray(qdd, float)
    tc = coriolis(Mlist, Glist, Slist, q, qd, h)
    tg = gravity_torque(Mlist, Glist, Slist, q, g, h)
    tf = tip_torque(Mlist, Slist, q, Ftip)
    return tM + tc + tg + tf, (tM, tc, tg, tf)


def energy(Mlist, Glist, Slist, q, qd, g):
    return kinetic(Mlist, Glist, Slist, q, qd) + potential(Mlist, Glist, Slist, q, g)


def rk4(acc, q, qd, dt, steps):
    """Classical RK4 of qdd = acc(q, qd); returns the list of (q, qd) including the start."""
    q = np.asarray(q, float).copy()
    qd = np.asarray(qd, float).copy()
    out = [(q.copy(), qd.copy())]
    for _ in range(steps):
        k1q, k1v = qd, acc(q, qd)
        k2q, k2v = qd + 0.5 * dt * k1v, acc(q + 0.5 * dt * k1q, qd + 0.5 * dt * k1v)
        k3q, k3v = qd + 0.5 * dt * k2v, acc(q + 0.5 * dt * k2q, qd + 0.5 * dt * k2v)
        k4q, k4v = qd + dt * k3v, acc(q + dt * k3q, qd + dt * k3v)
        q = q + dt / 6.0 * (k1q + 2 * k2q + 2 * k3q + k4q)
        qd = qd + dt / 6.0 * (k1v + 2 * k2v + 2 * k3v + k4v)
        out.append((q.copy(), qd.copy()))
    return out
